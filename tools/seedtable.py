#!/venv/bin/python
"""Runs every seeded change under /verif/seeded through tools/seedcheck.sh with its property's check and (re)writes
seeded/<id>/meta.json and seeded/README.md.  usage: tools/seedtable.py [id ...]"""
import json, os, re, subprocess, sys
V = "/verif"
readme_only = "--readme-only" in sys.argv
ids = [] if readme_only else [a for a in sys.argv[1:] if not a.startswith("--")] or sorted(d for d in os.listdir(f"{V}/seeded") if os.path.isdir(f"{V}/seeded/{d}"))
rows = []
for sid in ids:
    d = f"{V}/seeded/{sid}"
    prop = sid.split("-")[0]
    meta_p = f"{d}/meta.json"
    meta = json.load(open(meta_p)) if os.path.exists(meta_p) else {}
    prev_caught = meta.get("caught")
    # a change may land in code that is another property's subject (a C07 seed inside implicit.config is C17's): meta["also_checks"]
    checks = [prop] + [c for c in meta.get("also_checks", []) if c != prop]
    out = subprocess.run([f"{V}/tools/seedcheck.sh", d] + checks, capture_output=True, text=True).stdout
    clean = re.search(r"demo_clean_rc=(\d+)", out)
    patched = re.search(r"demo_patched_rc=(\d+)", out)
    tests = re.search(r"(\d+) passed", out)
    failed = re.search(r"(\d+) failed", out)
    allchk = list(re.finditer(r"check (\w+) rc=(\d+) :: (.*)", out))
    chk = next((m for m in allchk if m.group(2) == "1"), allchk[0] if allchk else None)
    viol = None
    for m_ in re.finditer(r"\[C\d+\] ([a-z-]+): ((?:(?!\[C\d+\] ).)*)", chk.group(3) if chk else ""):
        if m_.group(1) != "labels":
            viol = m_
            break
    notes = open(f"{d}/NOTES.md").read() if os.path.exists(f"{d}/NOTES.md") else ""
    meta.update({
        "id": sid, "breaks_property": prop,
        "what_it_needs_to_manifest": meta.get("what_it_needs_to_manifest") or notes.strip().split("\n\n")[0][:1200],
        "confirmed": {"demo_on_unchanged_code_rc": int(clean.group(1)) if clean else None,
                      "repo_tests_with_change": (tests.group(0) if tests else "?") + (", " + failed.group(0) if failed else ""),
                      "demo_with_change_rc": int(patched.group(1)) if patched else None},
        "what_was_run": f"tools/seedcheck.sh seeded/{sid} {prop}  (scratch copy of /repo under /tmp, removed afterwards)",
        "check_result": {"check": chk.group(1) if chk else prop, "rc": int(chk.group(2)) if chk else None,
                         "violation_kind": viol.group(1) if viol else None, "violation": (viol.group(2)[:300] if viol else None)},
        "caught": bool(chk and chk.group(2) == "1"),
    })
    if sid[-1] in "cdefghij" and "first_pass_caught" not in meta:
        # (rounds after the first: what the checks did before they were strengthened against this change)
        meta["first_pass_caught"] = prev_caught if prev_caught is not None else meta["caught"]
    if not os.environ.get("SEEDTABLE_DRY"):
        json.dump(meta, open(meta_p, "w"), indent=1)
    rows.append(meta)
    print(sid, "caught" if meta["caught"] else "MISSED", meta["confirmed"], flush=True)
if os.environ.get("SEEDTABLE_DRY"):
    sys.exit(0)
allmeta = []
for sid in sorted(d for d in os.listdir(f"{V}/seeded") if os.path.isdir(f"{V}/seeded/{d}")):
    p = f"{V}/seeded/{sid}/meta.json"
    if os.path.exists(p):
        allmeta.append(json.load(open(p)))
with open(f"{V}/seeded/README.md", "w") as f:
    f.write("# Independently seeded breaking changes\n\nEach directory holds `patch.diff` (apply with `git -C /repo apply`, undo with "
            "`git -C /repo checkout -- .`), `demo.py` (passes on the unchanged code, fails with the change), `NOTES.md` (the author's notes) and "
            "`meta.json`. The changes were written by sub-agents that saw only the property text and a scratch worktree. All were confirmed "
            "with `tools/seedcheck.sh` (demo passes without / fails with the change; the repository's 337 tests still pass with it).\n\n"
            "`first pass` = what the check did when the change was first run against it, before any strengthening (recorded for the "
            "second round, ids -c/-d; for the first round see DESIGN.md section 7).\n\n"
            "| id | property | first pass | caught by its check now (quick tier) | violation reported | note |\n|---|---|---|---|---|---|\n")
    for m in allmeta:
        fp = m.get("first_pass_caught")
        f.write(f"| {m['id']} | {m['breaks_property']} | {'' if fp is None else ('yes' if fp else 'no')} | {('yes' if m['check_result'].get('check') == m['breaks_property'] else 'yes, by ' + str(m['check_result'].get('check'))) if m['caught'] else 'NO'} | "
                f"{m['check_result'].get('violation_kind') or ''} | {m.get('note','')} |\n")
    n = sum(1 for m in allmeta if m["caught"])
    f.write(f"\n{n} of {len(allmeta)} caught.\n")
