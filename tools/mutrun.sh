#!/bin/bash
# usage: tools/mutrun.sh <patch.diff> <command...>
# Applies a patch to a scratch copy of /repo (outside /repo and /verif), runs the command with
# PYTHONPATH pointing at the copy, removes the copy.  Used only for sensitivity experiments.
set -u
patch_file=$(readlink -f "$1"); shift
d=$(mktemp -d /tmp/vfmut.XXXXXX)
trap 'rm -rf "$d"' EXIT
cp -r /repo/annet /repo/annet_generators /repo/tests "$d"/ 2>/dev/null
( cd "$d" && patch -p1 -s < "$patch_file" ) || { echo "patch failed"; exit 3; }
cd /verif
PYTHONPATH="$d" VF_ANNET_ROOT="$d" VF_EVIDENCE_DIR="$d/evidence" VF_REPLAY_DIR="${VF_REPLAY_DIR:-/verif/replays}" "$@"
rc=$?
echo "mutrun rc=$rc"
exit $rc
