#!/usr/bin/env python3
"""inserts / refreshes the round-5 rows (ids -i, -j) of seeded/README.md from seeded/<id>/meta.json"""
import json, os, re
NOTES = {
 "C01-i": "the change is in _diff_and_patch (unchanged lines stripped before make_pre), which the generic rule language cannot see - only vendor logic reads unchanged siblings; caught by C16's check (device vs file front end) and by C11's (huawei 'undo ... vlan all')",
 "C01-j": "caught after juniper annotation changes over the shipped juniper rulebook were generated (4 % of C01's cases): the stream must consist of self-contained lines and complete edit / annotate / exit triples, one per changed annotation; patch re-based after 68a229d",
 "C02-j": "the change is in compile_row_regexp ('*/re/' loses its word boundary): caught by C07's check (its subject)",
 "C03-i": "caught after annet.diff.collapse_diffs (the grouped review text of a deploy) was driven with three devices, one with the contents of two sibling blocks exchanged",
 "C03-j": "the change is in the file front end (_read_old_new_diff_patch hands the pre it patched from to the diff view): caught by C16's check (file_diff_worker text vs device diff)",
 "C04-i": "the change is in Registry.match (later patterns of a vendor skipped): caught by C18's check (its subject)",
 "C04-j": "caught after juniper / ribbon / nokia trees got annotations ('/* text */' rows before the annotated row)",
 "C05-j": "the change is in NokiaFormatter.split: caught by C04's check after the nokia device-config direction got '#' remark lines before, inside (column 0) and after the configure block",
 "C06-j": "caught after the shape 'A: block / ~ %global, B: the same block / ~ with children rules' was generated (kept out of the specificity region: no top-level %global rules then)",
 "C07-i": "caught after every generated rule was also compiled as an ignore rule ('!row', allow_ignore=True - what --filter-acl passes)",
 "C07-j": "caught after ACL and ordering rules were also written with the (?i) marker inside a word regex (huawei.order has one)",
 "C08-i": "caught after pinned / %global entries of generated ordering rulebooks were separated from the row by a TAB or a run of blanks",
 "C08-j": "caught after order_config was run under the generated ordering rulebook and judged by the reference rank (pinned negated rows)",
 "C09-i": "caught after the provider's deploy rulebook of every vendor was compared with the shipped <vendor>.deploy file (ribbon ships no .order file)",
 "C10-i": "caught after a silent generator (nothing yielded for this device, ACL overlapping another generator's lines) was added",
 "C10-j": "caught after tuple yields nested a lazily produced part (generator expression, map, iterator)",
 "C11-i": "caught after every device-mode patch was also computed under an ACL that covers every line (must not change a command)",
 "C12-j": "caught through a side effect: the simulation's stand-in for multiprocessing has no SimpleQueue; the deadlock itself needs a real pipe and > 500 ids",
 "C13-j": "caught after the JSON patch was also taken from the two front ends that hand it out (api._patch_worker, PCDeployerJob.parse_result)",
 "C15-i": "caught after every shipped mesh model field that DECLARES Concat()/Unite() anywhere in its annotation was merged from two instances",
 "C15-j": "caught after one MeshExecutor served all devices of the topology one after another",
 "C16-i": "caught after the real file workers were fed through directory mode (equal sizes and time stamps on both sides)",
 "C16-j": "caught after --indent varied over two blanks / empty / four blanks / TAB (RouterOS reader)",
 "C17-j": "caught after the --acl-safe pipeline ran two generators, one of which declares nothing safe",
 "C18-i": "caught after HardwareView.vendor was read after every registration while a fresh registry was being filled",
 "C19-i": "caught after the options object was built through argparse + ArgGroup.construct_from with the real option declarations",
 "C19-j": "caught after generator classes could be flavours derived from the class that declares the priority",
 "C20-j": "NOT caught: needs an ACL rule that names two generators but carries one %cant_delete flag ('interface * %generator_names=a,b'); production tagging writes one name per line and the compiler unites names and flags together, so no text annet produces has that shape (the exclusive pass itself is now part of C20's jobs)",
}
NOTES.update({
 "C01-k": "focused mini-round (flat-stream vendors): caught by the flat-stream oracle added in round 5",
 "C01-l": "focused mini-round: NOT caught - the change is in juniper's own %diff_logic for 'inactive:' rows, reached only through the shipped juniper rulebook with deactivated blocks; C01's rule language has the generic logics, and its juniper-rulebook cases are annotation changes only",
 "C01-m": "focused mini-round (RouterOS): NOT caught - it changes how a removal is SPELLED ('remove [ find ... ]' losing a second 'add ' inside an attribute); C01 judges the menu each RouterOS command runs in and does not execute the queries",
 "C01-n": "focused mini-round (RouterOS): caught by the menu-stream oracle (count of command lines vs commands of the patch tree)",
 "C01-o": "focused mini-round (aruba): caught by execution on the simulator (aruba joined C01 in round 5)",
 "C01-p": "focused mini-round (aruba): caught after the line sequence of block-structured vendors was replayed against the device's own notion of the current block (a header enters, the exit word leaves one level)",
})
rows = {}
for d in sorted(os.listdir("seeded")):
    if not re.fullmatch(r"C\d\d-[i-p]", d):
        continue
    m = json.load(open(os.path.join("seeded", d, "meta.json")))
    cr = m.get("check_result", {})
    caught = m.get("caught")
    by = cr.get("check", "")
    now = ("yes" if by == m["breaks_property"] else "yes, by " + by) if caught else "NO"
    rows[d] = "| %s | %s | %s | %s | %s | %s |" % (d, m["breaks_property"], "yes" if m.get("first_pass_caught") else "no", now,
                                                   cr.get("violation_kind", "") if caught else "", NOTES.get(d, ""))
p = "seeded/README.md"
lines = open(p).read().split("\n")
lines = [l for l in lines if not re.match(r"\| C\d\d-[i-p] \|", l)]
table = [l for l in lines if re.match(r"\| C\d\d-[a-z] \|", l)] + list(rows.values())
table.sort(key=lambda l: l.split("|")[1].strip())
first = next(i for i, l in enumerate(lines) if re.match(r"\| C\d\d-[a-z] \|", l))
last = max(i for i, l in enumerate(lines) if re.match(r"\| C\d\d-[a-z] \|", l))
lines[first:last + 1] = table
total = len(table)
caught = sum(1 for l in table if l.split("|")[4].strip().lower().startswith("yes"))
out = "\n".join(lines)
out = re.sub(r"\n\d+ of \d+ caught\.", "\n%d of %d caught." % (caught, total), out)
open(p, "w").write(out)
print(caught, "of", total)
