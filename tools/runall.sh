#!/bin/bash
# runs every registered quick (or thorough) check on /repo as it is; prints one line per check
tier=${1:-quick}
cd "$(dirname "$(readlink -f "$0")")/.."
# the manifest's setup step (offline installs: hypothesis into /venv if missing, atheris into ./.deps for the coverage-guided tier)
bash -c "$(python3 -c "import json;print(json.load(open('MANIFEST.json'))['setup_cmd'])")" >/dev/null 2>&1
for p in $(python3 -c "import json;print(' '.join(c['property_id'] for c in json.load(open('MANIFEST.json'))['checks']))"); do
  s=$(date +%s)
  out=$(PYTHONHASHSEED=0 PYTHONDONTWRITEBYTECODE=1 /venv/bin/python -m vf.run $p --tier $tier 2>&1); rc=$?
  e=$(date +%s)
  echo "$p rc=$rc $((e-s))s $(echo "$out" | grep -E "VIOLATION|HARNESS|degenerate|INCONCLUSIVE" | head -2 | cut -c1-200) $(python3 -c "
import json
try:
    f=json.load(open('evidence/$p.json'))['coverage'].get('fuzz')
    print('fuzz:%s/%s' % (f.get('evaluations'), f.get('distinct_nontrivial')) if f else '')
except Exception: pass")"
done
