#!/usr/bin/env python3
"""usage: tools/seedmeta.py <result-dir> first|now <id>...   - records what tools/seedcheck.sh printed for a seeded change into
seeded/<id>/meta.json ('first' = first pass, before any strengthening; 'now' = current state, possibly by another property's check)"""
import json, os, re, sys
resdir, mode, ids = sys.argv[1], sys.argv[2], sys.argv[3:]
for i in ids:
    txt = open(os.path.join(resdir, i + ".txt")).read()
    d = os.path.join("seeded", i)
    mp = os.path.join(d, "meta.json")
    meta = json.load(open(mp)) if os.path.exists(mp) else {"id": i, "breaks_property": i.split("-")[0]}
    notes = open(os.path.join(d, "NOTES.md")).read().strip().splitlines()
    meta["what_it_needs_to_manifest"] = notes[0] if notes else ""
    g = lambda pat: (re.search(pat, txt) or [None, None])[1]
    meta["confirmed"] = {"demo_on_unchanged_code_rc": int(g(r"demo_clean_rc=(\d+)") or -1),
                         "repo_tests_with_change": g(r"(\d+ passed)[^\n]*") or "?",
                         "demo_with_change_rc": int(g(r"demo_patched_rc=(\d+)") or -1)}
    checks = re.findall(r"^check (C\d\d) rc=(\d+) :: (.*)$", txt, re.M)
    caught = [(c, rest) for c, rc, rest in checks if rc == "1"]
    if mode == "first":
        meta["first_pass_caught"] = bool(caught)
        meta["first_pass_checks_run"] = [c for c, _, _ in checks]
    else:
        meta["what_was_run"] = "tools/seedcheck.sh seeded/%s %s  (scratch copy of /repo under /tmp, removed afterwards)" % (i, " ".join(c for c, _, _ in checks))
        meta["caught"] = bool(caught)
        if caught:
            c, rest = caught[0]
            ms = [x for x in re.finditer(r"\[%s\] ([a-z+-]+): " % c, rest) if x.group(1) != "labels"]
            m = ms[-1] if ms else None
            meta["check_result"] = {"check": c, "rc": 1, "violation_kind": m.group(1) if m else "?",
                                    "violation": (rest[m.end():] if m else rest).strip()[:300]}
        else:
            meta["check_result"] = {"check": ",".join(c for c, _, _ in checks), "rc": 0}
    json.dump(meta, open(mp, "w"), indent=1)
    print(i, mode, bool(caught))
