#!/bin/bash
# usage: tools/seedcheck.sh <dir with patch.diff + demo.py> <Cxx> [more Cxx ...]
# Confirms a seeded change in a scratch copy of /repo (outside /repo and /verif):
#   1. demo passes on the unchanged code   2. patch applies   3. repo test suite still passes with it
#   4. demo fails with it                  5. runs the given checks (quick) against the patched copy
set -u
sd=$(readlink -f "$1"); shift
d=$(mktemp -d /tmp/vfseed.XXXXXX)
trap 'rm -rf "$d"' EXIT
cp -r /repo/annet /repo/annet_generators /repo/tests /repo/setup.py "$d"/ 2>/dev/null
cd "$d"
echo "== demo on unchanged code"; PYTHONPATH="$d" timeout 300 /venv/bin/python "$sd/demo.py" >/dev/null 2>&1; echo "demo_clean_rc=$?"
patch -p1 -s < "$sd/patch.diff" || { echo "PATCH_FAILED"; exit 3; }
echo "== repo tests with the change"; PYTHONPATH="$d" timeout 900 /venv/bin/python -m pytest -q -p no:cacheprovider -x tests 2>&1 | tail -1
echo "== demo with the change"; PYTHONPATH="$d" timeout 300 /venv/bin/python "$sd/demo.py" >/dev/null 2>&1; echo "demo_patched_rc=$?"
cd /verif
for p in "$@"; do
  out=$(PYTHONPATH="$d" VF_ANNET_ROOT="$d" VF_EVIDENCE_DIR="$d/evidence" VF_REPLAY_DIR="$d/replays" PYTHONHASHSEED=0 timeout 1200 /venv/bin/python -m vf.run $p --tier quick 2>&1); rc=$?
  echo "check $p rc=$rc :: $(echo "$out" | grep -E "^\[$p\] [a-z-]+:|VIOLATION|HARNESS" | head -2 | cut -c1-260 | tr '\n' ' ')"
done
