"""The shipped (before, after) corpus: inputs of tests/annet/test_patch/*.yaml, read at run time from
the repository under test. Only the inputs are used; the frozen expected patches are never an oracle."""
import functools
import glob
import os
from collections import OrderedDict as odict

import yaml

HW_STUB = {
    "cisco": "Cisco Catalyst", "nexus": "Cisco Nexus", "asr": "Cisco ASR", "iosxr": "Cisco XR", "huawei": "Huawei",
    "huawei ce": "Huawei CE0000", "juniper": "Juniper", "routeros": "RouterOS", "aruba": "Aruba", "arista": "Arista",
    "nokia": "Nokia", "pc": "PC", "ribbon": "Ribbon", "optixtrans": "Huawei DC", "b4com": "B4com", "h3c": "H3C",
}


def repo_root():
    import annet
    return os.environ.get("VF_ANNET_ROOT") or os.path.dirname(os.path.dirname(os.path.abspath(annet.__file__)))


def _expand_diff(tree):
    def proc(node, sign=0):
        r1, r2 = odict(), odict()
        for line, ch in node.items():
            line = line.strip()
            ls = 0
            if line.startswith("-") or line.startswith("+"):
                ls = 1 if line[0] == "+" else -1
                line = line[1:].strip()
            s1, s2 = proc(ch, ls)
            if ls != 1:
                r1[line] = s1
            if ls != -1:
                r2[line] = s2
        return r1, r2
    return proc(tree)


@functools.lru_cache(maxsize=None)
def samples():
    """list of dicts: name, vendor, model, old, new (ordered trees)"""
    from annet.annlib.netdev.views.hardware import HardwareView
    from annet.annlib.tabparser import parse_to_tree
    from vf.model import sut
    out = []
    d = os.path.join(repo_root(), "tests", "annet", "test_patch")
    for fn in sorted(glob.glob(os.path.join(d, "*.yaml"))):
        with open(fn) as f:
            data = yaml.load(f, Loader=yaml.BaseLoader)
        items = data if isinstance(data, list) else [data]
        for i, s in enumerate(items, 1):
            vkey = s.get("vendor", "huawei").lower()
            model = HW_STUB[vkey]
            hw = HardwareView(model, None)
            fmt = sut.registry().match(hw).make_formatter()
            try:
                if "diff" in s:
                    old, new = _expand_diff(parse_to_tree(s["diff"], fmt.split))
                else:
                    old = parse_to_tree(s["before"], fmt.split)
                    new = parse_to_tree(s["after"], fmt.split)
            except Exception:
                continue
            out.append({"name": "%s #%d" % (os.path.basename(fn), i), "vendor_key": vkey, "model": model,
                        "vendor": sut.registry().match(hw).NAME, "old": old, "new": new})
    return out
