"""Independent model of glob JSON pointers over documents (RFC 6901 escaping + fnmatch-style globs per part)."""
import copy
import fnmatch

ABSENT = ("<ABSENT>",)


def esc(k):
    return k.replace("~", "~0").replace("/", "~1")


def unesc(p):
    return p.replace("~1", "/").replace("~0", "~")


def pattern_parts(pattern):
    assert pattern.startswith("/")
    return [unesc(x) for x in pattern.split("/")[1:]]


def select(doc, pattern):
    """concrete key paths (tuples; list indices as ints) of doc selected by the glob pointer pattern"""
    cur = [((), doc)]
    for part in pattern_parts(pattern):
        nxt = []
        for path, d in cur:
            if isinstance(d, dict):
                for k in d:
                    if fnmatch.fnmatchcase(k, part):
                        nxt.append((path + (k,), d[k]))
            elif isinstance(d, list):
                for i in range(len(d)):
                    if fnmatch.fnmatchcase(str(i), part):
                        nxt.append((path + (i,), d[i]))
        cur = nxt
    return [p for p, _ in cur]


def getp(doc, path):
    for k in path:
        if isinstance(doc, dict) and k in doc:
            doc = doc[k]
        elif isinstance(doc, list) and isinstance(k, int) and 0 <= k < len(doc):
            doc = doc[k]
        elif isinstance(doc, list) and isinstance(k, str) and k.isdigit() and int(k) < len(doc):
            doc = doc[int(k)]
        else:
            return ABSENT
    return doc


def leaves(doc, path=()):
    """(path, value) for every scalar / array / empty-object leaf"""
    if isinstance(doc, dict) and doc:
        for k, v in doc.items():
            yield from leaves(v, path + (k,))
    else:
        yield path, doc


def under(path, sels):
    return any(path[:len(s)] == s for s in sels)


def is_prefix_of_some(path, sels):
    return any(len(path) < len(s) and s[:len(path)] == path for s in sels)


def model_apply_fragment(old, frag, acl):
    """the documented effect, folded over the ACL items in order: selected parts become the fragment's
    (absent in the fragment => absent in the result), everything else stays"""
    cur = copy.deepcopy(old)
    for item in acl:
        new_ptrs = select(frag, item)
        old_ptrs = select(cur, item)
        for p in new_ptrs:
            d = cur
            for k in p[:-1]:
                if not isinstance(d.get(k), dict):
                    d[k] = {}
                d = d[k]
            d[p[-1]] = copy.deepcopy(getp(frag, p))
        for p in old_ptrs:
            if p not in new_ptrs:
                d = getp(cur, p[:-1])
                if isinstance(d, dict):
                    d.pop(p[-1], None)
    return cur
