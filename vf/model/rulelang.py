"""Model of annet's patching rule language: rule trees as JSON, rendering to rulebook text,
row instantiation, config-tree generation and mutation, (rule,key) classification through the
reference matcher.  Random choices come from a random.Random-like object handed in by the caller
(in checks it is hypothesis.strategies.randoms(use_true_random=False), so every choice is a
Hypothesis draw and shrinks/replays).

rule JSON: {"id": "r0.1", "toks": [...], "children": [...], "glob": bool, "logic": str|None,
            "ordered": bool, "rewrite": bool}
"""
from collections import OrderedDict as odict

from .refmatch import ref_match

WORDS = ["a", "b", "c", "d", "1", "2", "3", "A", "B"]
HEADS = ["alpha", "beta", "gamma", "delta", "eps", "zeta", "eta", "theta", "notify", "undone"]
# ("notify" / "undone" merely START with the letters of a negation word (no / undo): they are plain rules, not negated ones)
UNKNOWN_HEAD = "unk"


def rule(toks, children=(), glob=False, logic=None, ordered=False, rewrite=False, icase=False):
    return {"toks": list(toks), "children": list(children), "glob": glob, "logic": logic,
            "ordered": ordered, "rewrite": rewrite, "icase": icase}


def assign_ids(rules, prefix="r"):
    for i, r in enumerate(rules):
        r["id"] = f"{prefix}{i}"
        assign_ids(r["children"], r["id"] + ".")
    return rules


def rule_lines(rules, ind=0):
    out = []
    for r in rules:
        s = " " * ind + " ".join(r["toks"])
        if r.get("ordered"):
            s += " %ordered"
        if r.get("rewrite"):
            s += " %rewrite"
        if r.get("glob"):
            s += " %global"
        if r.get("logic"):
            s += " %logic=" + r["logic"]
        if r.get("icase"):
            s += " %ignore_case"
        if r.get("comment"):
            s += " %comment=" + r["comment"]
        if r.get("force_commit"):
            s += " %force_commit"
        out.append(s)
        out += rule_lines(r["children"], ind + 4)
    return out


def rule_text(rules):
    return "\n".join(rule_lines(rules)) + "\n"


# ------------------------------------------------------------------ contexts
class Ctx:
    """the rules applicable at one block level: local ones, then inherited %global ones"""

    def __init__(self, local, globs=()):
        self.local = [r for r in local if not r.get("glob")]
        self.globs = [r for r in local if r.get("glob")] + list(globs)

    def rules(self):
        return self.local + self.globs

    def classify(self, row):
        """first matching rule in annet's documented search order: local rules in text order, then globals"""
        for r in self.rules():
            k = ref_match(r["toks"], row)
            if k is not None:
                return r, k
        return None

    def ident(self, row):
        c = self.classify(row)
        return None if c is None else (c[0]["id"], c[1])

    def child(self, r, row=None):
        """rules for the children of a row governed by r; when the row is given and several local rules match it (overlapping
        rules), the children rules of all of them apply (first-seen order)"""
        if r.get("glob"):
            return Ctx([], self.globs)
        kids = list(r["children"])
        if row is not None:
            for o in self.local:
                if o is not r and ref_match(o["toks"], row) is not None:
                    have = {id(x) for x in kids}
                    kids += [c for c in o["children"] if id(c) not in have and " ".join(c["toks"]) not in {" ".join(k["toks"]) for k in kids}]
        return Ctx(kids, self.globs)


def is_block(r):
    return bool(r["children"])


def blockish(ctx, r, row):
    """the row has children rules: its governing rule has some, or another local rule that matches the row too (a childless specific
    rule listed before the generic block rule: the first match governs, the children rules of all matching rules apply)"""
    return is_block(r) or bool(ctx.child(r, row).local)


def valued_block(r):
    """a block rule whose header carries a value outside the key; only with undo_redo logic is replacing such a header defined
    (old block removed, new one created with all its children)"""
    return is_block(r) and r.get("logic") == "common.undo_redo"


def fully_keyed(r):
    """rows of this rule are determined by their key (no free value words)"""
    if valued_block(r):
        return False
    return is_block(r) or r.get("logic") == "common.permanent" or r.get("ordered") or r.get("rewrite") or r.get("icase")


# ------------------------------------------------------------------ generation
def inst_row(rnd, r, valued=None):
    w = []
    for t in r["toks"]:
        if t == "*":
            w.append(rnd.choice(WORDS[:7] if r.get("icase") else WORDS))
        elif t == "~":
            w += [rnd.choice(WORDS) for _ in range(rnd.randint(1, 2))]
        else:
            w.append(t)
    if valued is None:
        valued = not fully_keyed(r)
    if valued and r["toks"][-1] != "~":
        w += [rnd.choice(WORDS) for _ in range(rnd.randint(0, 2))]
    return " ".join(w)


def gen_rules(rnd, depth=0, heads=None, opts=None):
    """a list of sibling rules with pairwise distinct first literal words"""
    opts = opts or {}
    heads = heads or HEADS
    logics = opts.get("logics", ("common.undo_redo", "common.permanent", "common.ignore_changes"))
    rules = []
    for h in rnd.sample(heads, rnd.randint(1, min(4, len(heads)))):
        toks = [h]
        for _ in range(rnd.randint(0, 2)):
            toks.append(rnd.choice(["*", "lit" + rnd.choice("xy"), "*"]))
        kind = rnd.random()
        sub = [x + str(depth) for x in HEADS[:5]]
        if depth < 2 and kind < 0.3:
            lg = "common.permanent" if ("common.permanent" in logics and rnd.random() < 0.3) else None
            kids = gen_rules(rnd, depth + 1, sub, opts)
            blocks_so_far = [r for r in rules if r["children"] and not r["children"][0].get("ordered") and not r["children"][0].get("rewrite")]
            if blocks_so_far and rnd.random() < 0.3:
                # the same child rule NAMES as a sibling block, with different sub-rules below them
                proto = rnd.choice(blocks_so_far)["children"]
                kids = [rule(c["toks"], gen_rules(rnd, depth + 2, [x + str(depth + 1) for x in HEADS[:5]], opts) if (c["children"] and depth < 1) else [],
                             logic=None) for c in proto if not c.get("glob")] or kids
            if lg is None and "common.undo_redo" in logics and opts.get("valued_blocks", True) and rnd.random() < 0.2:
                # a key-less block whose header carries a value (bgp 65000 -> bgp 65100): replaced by undo + re-creation
                rules.append(rule([h], kids, logic="common.undo_redo"))
            else:
                if opts.get("overlap", True) and "*" in toks and lg is None and rnd.random() < 0.12:
                    # a childless rule for ONE key listed BEFORE the generic block rule: it governs that row (first match), while the
                    # children rules of the generic rule still apply to the lines below it
                    spec0 = list(toks)
                    spec0[spec0.index("*")] = rnd.choice(WORDS[:4])
                    rules.append(rule(spec0, []))
                rules.append(rule(toks, kids, logic=lg))
                if opts.get("overlap", True) and "*" in toks and rnd.random() < 0.25:
                    # an overlapping, more specific rule for one concrete key (after the generic one): the first match governs,
                    # the children rules of both apply
                    spec = list(toks)
                    spec[spec.index("*")] = rnd.choice(WORDS[:4])
                    if " ".join(spec) not in {" ".join(x["toks"]) for x in rules}:     # (one rule per rule text)
                        rules.append(rule(spec, gen_rules(rnd, depth + 1, [x + str(depth) + "s" for x in HEADS[:4]], opts)))
        elif depth < 2 and kind < 0.48 and opts.get("ordered", True):
            if depth < 1 and rnd.random() < 0.35 and opts.get("ordered_blocks", True):
                # %ordered BLOCK rules (entries that have their own children), e.g. numbered policy nodes
                sub2 = [rule(["set", "*"]), rule(["match", "~"])]
                rules.append(rule(toks + ["*"] if "*" not in toks else toks, [rule(["entry", "*"], sub2, ordered=True)]))
            else:
                # (an explicit %logic next to %ordered is overridden by the ordered patch logic: the rule still behaves as %ordered)
                olg = "common.undo_redo" if ("common.undo_redo" in logics and rnd.random() < 0.25) else None
                rules.append(rule(toks + ["*"] if "*" not in toks else toks, [rule(["rule", "~"], ordered=True, logic=olg)]))
        elif depth < 2 and kind < 0.58 and opts.get("rewrite", True):
            rules.append(rule(toks + ["*"] if "*" not in toks else toks, [rule(["~"], rewrite=True, glob=True)]))
        else:
            if rnd.random() < 0.25:
                toks.append("~")
            lg = None
            x = rnd.random()
            if x < 0.15 and "*" in toks and "common.undo_redo" in logics:
                lg = "common.undo_redo"
            elif x < 0.25 and "common.permanent" in logics:
                lg = "common.permanent"
                toks = [t for t in toks if t != "~"]
            elif x < 0.35 and "*" in toks and "common.ignore_changes" in logics:
                lg = "common.ignore_changes"
            ic = lg is None and opts.get("icase", True) and rnd.random() < 0.12
            if ic:
                toks = [t for t in toks if t != "~"]
            rules.append(rule(toks, logic=lg, icase=ic))
            if opts.get("force_commit") and depth >= 1 and lg is None and not ic and rnd.random() < 0.3 and \
                    not any(x.get("force_commit") for x in rules):
                rules[-1]["force_commit"] = True      # (at most one per block: its own 'commit' line follows it in the patch)
            if opts.get("comments") and rnd.random() < 0.4:
                rules[-1]["comment"] = "!!note-" + h     # shown after the command when comments are requested; never part of the command
    if depth == 0 and opts.get("globals", True) and rnd.random() < 0.4:
        rules.append(rule(["gdesc", "*"], glob=True))
    if depth == 0:
        assign_ids(rules)
    return rules


def gen_tree(rnd, ctx, unknown=0.0, _rw=0):
    t = odict()
    seen = set()
    for r in ctx.rules():
        many = r.get("ordered") or r.get("rewrite")
        n = rnd.randint(1, 5) if many else rnd.randint(0, 2)
        if _rw:
            n = rnd.randint(1, 3) if r.get("rewrite") else 0
        if r.get("glob") and not r.get("rewrite"):
            n = rnd.randint(0, 1)
        for _ in range(n):
            row = inst_row(rnd, r)
            k = ctx.ident(row)
            if k is None or k[0] != r["id"] or k in seen:
                continue
            seen.add(k)
            # no foreign rows inside %ordered blocks: a moved block is removed and re-created, which cannot preserve lines annet does not know
            if blockish(ctx, r, row):
                prev_same = [t[x] for x in t if ctx.classify(x) and ctx.classify(x)[0] is r and t[x]]
                if prev_same and rnd.random() < 0.3:
                    t[row] = to_odict(plain(rnd.choice(prev_same)))     # sibling blocks with the same content
                else:
                    t[row] = gen_tree(rnd, ctx.child(r, row), 0.0 if r.get("ordered") else unknown)
            elif r.get("rewrite") and r.get("glob") and _rw < 2 and rnd.random() < 0.3:
                # nested content inside a %rewrite object ("if x then" / "set y"): every line below is governed by the same global rule
                t[row] = gen_tree(rnd, ctx.child(r, row), 0.0, _rw + 1)
            else:
                t[row] = odict()
    if unknown and rnd.random() < unknown:
        t[UNKNOWN_HEAD + " " + rnd.choice(WORDS)] = odict()
    items = list(t.items())
    rnd.shuffle(items)
    return odict(items)


def mutate(rnd, ctx, tree, unknown=0.0):
    """derive a new target from a tree: per row drop / change value with the same key / change key /
    recurse; plus fresh rows; plus reorderings."""
    out = odict()
    seen = set()
    for row, ch in tree.items():
        c = ctx.classify(row)
        if c is None:
            if rnd.random() < 0.7:
                out[row] = ch
            continue
        r, key = c
        x = rnd.random()
        if x < 0.15:
            continue
        if r.get("rewrite") and ch:
            # a line of a %rewrite object that has nested lines: keep, or change something below it only
            if (r["id"], key) in seen:
                continue
            seen.add((r["id"], key))
            out[row] = mutate(rnd, ctx.child(r, row), ch, 0.0) if x < 0.6 else to_odict(plain(ch))
            continue
        if x < 0.55 and not blockish(ctx, r, row):
            if fully_keyed(r):
                row2 = row
            elif r["toks"][-1] != "~" and rnd.random() < 0.8:
                npat = len(r["toks"])
                row2 = " ".join(row.split(" ")[:npat] + [rnd.choice(WORDS) for _ in range(rnd.randint(0, 2))])
            else:
                row2 = inst_row(rnd, r)
            k2 = ctx.ident(row2)
            if k2 is None or k2 in seen or k2[0] != r["id"]:
                continue      # (the changed line must still belong to the same rule: a new value may not turn it into a line of another,
                #                e.g. case-insensitive, rule)
            seen.add(k2)
            out[row2] = odict()
            continue
        if (r["id"], key) in seen:
            continue
        seen.add((r["id"], key))
        row2 = row
        if valued_block(r) and rnd.random() < 0.4:
            row2 = " ".join(row.split(" ")[:len(r["toks"])] + [rnd.choice(WORDS)])   # same key, new header value
        out[row2] = mutate(rnd, ctx.child(r, row2), ch, 0.0 if r.get("ordered") else unknown) if blockish(ctx, r, row2) else odict()
    for row, ch in gen_tree(rnd, ctx, unknown).items():
        k = ctx.ident(row)
        if k is None:
            out.setdefault(row, ch)
            continue
        if k in seen:
            continue
        seen.add(k)
        out[row] = ch
    items = list(out.items())
    if rnd.random() < 0.5:
        rnd.shuffle(items)
    return odict(items)


def has_logic(rules, names):
    return any(r.get("logic") in names or has_logic(r["children"], names) for r in rules)


def plain(t):
    return {k: plain(v) for k, v in t.items()}


def to_odict(t):
    return odict((k, to_odict(v)) for k, v in t.items())
