"""Independent reference parser for indented config text (the offside rule), written from the
statement of C05, not from annet's tabparser.

 * a line starting with '#' in column 0 ends the current section when '#' is a comment marker;
 * blank lines and lines whose first non-blank characters are a comment marker are ignored;
 * per section the first content line's indentation is the base; a line left of the base is an error;
 * every line hangs under the nearest preceding line with strictly smaller indentation;
 * a dedent must land on a column at which an enclosing (still open) line started, else error;
 * repeated identical lines at one place merge.
"""


class RefParseError(Exception):
    pass


def indent_of(line):
    n = 0
    for ch in line:
        if ch in " \t":
            n += 1
        else:
            break
    return n


def sections(lines, comments):
    secs = [[]]
    for line in lines:
        s = line.strip()
        if "#" in comments and line.startswith("#"):
            secs.append([])
            continue
        if s == "" or s.startswith(tuple(comments)):
            continue
        secs[-1].append((indent_of(line), s))
    return secs


def ref_parse_lines(lines, comments=("!", "#")):
    tree = {}
    for sec in sections(lines, comments):
        if not sec:
            continue
        base = sec[0][0]
        stack = []  # (column, node)
        for ind, s in sec:
            ind -= base
            if ind < 0:
                raise RefParseError("line left of the section's first line: %r" % s)
            popped = False
            while stack and stack[-1][0] > ind:
                stack.pop()
                popped = True
            if stack and stack[-1][0] == ind:
                stack.pop()
            elif popped:
                raise RefParseError("dedent to a column no open block started at: %r" % s)
            parent = stack[-1][1] if stack else tree
            node = parent.setdefault(s, {})
            stack.append((ind, node))
    return tree


def ref_parse(text, comments=("!", "#")):
    return ref_parse_lines([l for l in text.split("\n") if l != ""], comments)
