"""Schedule-controlled execution of the REAL annet.parallel code.

Inside the harness process only, the names `mp` and `time` of annet.parallel are replaced by fakes.
Workers run the real `pool_worker` in threads; the parent runs the real `Parallel.irun` generator.
Exactly one party runs at a time; at every queue operation / process start / process exit / join the
running party hands the baton to the scheduler, which picks the next runnable party from an explicit
choice sequence (a list of ints, drawn by Hypothesis) and falls back to fair round-robin when the
sequence is exhausted.  A case therefore replays exactly from its choice sequence.
"""
import asyncio
import logging
import queue as pyqueue
import threading
import types


class _Killed(BaseException):
    pass


class StepBound(Exception):
    pass


class Sched:
    def __init__(self, choices, max_steps):
        self.cv = threading.Condition()
        self.choices = list(choices)
        self.pos = 0
        self.rr = 0
        self.current = "parent"
        self.parties = {"parent": None}  # name -> predicate or None
        self.killed = set()
        self.trace = []
        self.steps = 0
        self.max_steps = max_steps
        self.bound_hit = False
        self.deadlock = False
        self.now = 0.0
        self.events = []  # (step, what) facts for the non-triviality rule

    # must be called by the party currently holding the baton
    def switch(self, me, pred=None, leaving=False):
        with self.cv:
            if leaving:
                self.parties.pop(me, None)
            else:
                self.parties[me] = pred
            self._pick()
            if leaving:
                return
            while self.current != me:
                self.cv.wait()
            self.parties[me] = None
            if me in self.killed:
                raise _Killed()
            if self.deadlock and me == "parent":
                raise StepBound()

    def _runnable(self):
        out = []
        for n in sorted(self.parties):
            p = self.parties[n]
            if n in self.killed or p is None or p():
                out.append(n)
        return out

    def _pick(self):
        self.steps += 1
        if self.steps > self.max_steps:
            self.bound_hit = True
        r = self._runnable()
        if not r:
            # nobody can run: wake the parent so that the case ends (reported as non-termination)
            self.bound_hit = True
            self.deadlock = True
            self.current = "parent"
            self.cv.notify_all()
            return
        if self.bound_hit:
            # unwind: let the parent see the bound
            nxt = "parent" if "parent" in r else r[0]
        elif self.pos < len(self.choices):
            c = self.choices[self.pos]
            self.pos += 1
            if c < 0:
                # -1: follow the fair round-robin; -2 / -3: deviate from it by one / two places at this step (delay-bounded schedules)
                nxt = r[(self.rr + (-c - 1)) % len(r)]
                if c == -1:
                    self.rr += 1
            else:
                nxt = r[c % len(r)]
        else:
            nxt = r[self.rr % len(r)]
            self.rr += 1
        self.trace.append(nxt)
        self.current = nxt
        self.cv.notify_all()

    def register(self, name):
        with self.cv:
            self.parties[name] = None


class Fake:
    """the fake `multiprocessing` + `time` seen by annet.parallel for one case"""

    def __init__(self, sched: Sched):
        S = self.S = sched
        fake = self
        self.procs = []
        self.threads = []

        def me():
            n = threading.current_thread().name
            return n if n.startswith("Worker-") else "parent"

        class FQueue:
            def __init__(self):
                self.items = []
                fake.queues.append(self)

            def put(self, x):
                # multiprocessing.Queue pickles in a feeder thread; an item that cannot be pickled is dropped there (traceback on stderr)
                try:
                    import pickle
                    self.items.append(pickle.dumps(x))
                except Exception:
                    S.events.append("unpicklable-item-dropped-by-queue")
                S.switch(me())

            def get(self, block=True, timeout=None):
                n = me()
                if S.bound_hit and n == "parent":
                    raise StepBound()
                import pickle
                if timeout is None:
                    S.switch(n, lambda: bool(self.items))
                    return pickle.loads(self.items.pop(0))     # (re-created in the receiving process: may raise, as Queue.get does)
                S.switch(n)
                if S.bound_hit and n == "parent":
                    raise StepBound()
                if self.items:
                    return pickle.loads(self.items.pop(0))
                S.now += float(timeout)
                raise pyqueue.Empty

            def qsize(self):
                return len(self.items)

            def empty(self):
                return not self.items

            def close(self):
                pass

        class FProcess:
            def __init__(self, name=None, target=None, args=()):
                self.name = name
                self.target = target
                self.args = args
                self.exitcode = None
                self.pid = 4242
                self.done = False
                fake.procs.append(self)

            def start(self):
                S.register(self.name)
                proc = self

                def run():
                    code = 0
                    try:
                        with S.cv:
                            while S.current != proc.name:
                                S.cv.wait()
                            S.parties[proc.name] = None
                            if proc.name in S.killed:
                                raise _Killed()
                        proc.target(*proc.args)
                    except SystemExit as e:
                        code = e.code if isinstance(e.code, int) else 1
                    except _Killed:
                        code = -15
                    except BaseException as e:  # a crash of the worker body
                        code = 1
                        fake.worker_crashes.append(repr(e))
                    finally:
                        try:
                            asyncio.get_event_loop().close()
                        except Exception:
                            pass
                    proc.exitcode = code
                    proc.done = True
                    # facts for the non-triviality rule: a worker exits while results are still queued
                    if any(q.items for q in fake.queues[1:2]):
                        S.events.append("exit-with-queued-results")
                    S.switch(proc.name, leaving=True)

                th = threading.Thread(target=run, name=self.name, daemon=True)
                fake.threads.append(th)
                th.start()
                S.switch(me())

            def join(self, timeout=None):
                if not self.done:
                    S.switch(me(), lambda: self.done)

            def terminate(self):
                if not self.done:
                    S.killed.add(self.name)

            def is_alive(self):
                return not self.done

        self.queues = []
        self.worker_crashes = []
        self.Queue = FQueue
        self.Process = FProcess
        self.mp = types.SimpleNamespace(
            Queue=FQueue, Process=FProcess, cpu_count=lambda: 4,
            current_process=lambda: types.SimpleNamespace(name=me()),
        )
        self.time = types.SimpleNamespace(monotonic=lambda: S.now, sleep=lambda s: None, time=lambda: S.now)


_lock = threading.Lock()


class TwoArgError(Exception):
    pass


class InitTwoError(Exception):
    """an exception class with its own constructor signature (code, message) that passes ONE argument on to Exception - as many
    library errors do; pickle re-creates it as InitTwoError(*self.args), which fails in the receiving process"""

    def __init__(self, code, message):
        super().__init__("%s: %s" % (code, message))
        self.code = code


def is_transient(kind):
    """kind 7: the connection drops on the first two attempts only - the retries heal it, the task succeeds"""
    return kind % 9 == 7


def task_error(kind, x):
    """the exceptions tasks fail with: differently shaped .args (a syscall error has two, some have none); all name the id"""
    k = kind % 9
    if k == 8:
        class LocalError(Exception):      # an exception class defined inside a function (cannot be pickled by reference)
            pass
        return LocalError("boom-%s" % x)
    if k in (5, 7):
        return BrokenPipeError("boom-%s" % x)          # a dropped connection: the task is retried net_retry times (kind 7 heals)
    if k == 6:
        return ConnectionResetError(104, "boom-%s" % x)
    if k == 0:
        return ValueError("boom-%s" % x)
    if k == 1:
        return FileNotFoundError(2, "boom-%s" % x)
    if k == 2:
        return KeyError("boom-%s" % x)
    if k == 3:
        return TwoArgError("boom-%s" % x, {"code": 7})
    return UnicodeDecodeError("utf-8", b"boom-%d" % x, 0, 1, "boom-%s" % x)


def run_case(n, par, max_tasks, fail_ids, tolerate, choices, consumer_delays, use_run=False, max_steps=None, unpicklable_ids=(), fail_kind=0, callback=None, gen_task=False, partial_task=False):
    """runs Parallel(f).irun(range(n)) under the schedule; returns a dict describing the outcome"""
    import annet.parallel as P
    logging.disable(logging.CRITICAL)
    S = Sched(choices, max_steps or (3000 + 400 * n))
    fake = Fake(S)
    real_mp, real_time, real_os = P.mp, P.time, P.os

    class _FakeOs:
        # the timeout path sends SIGUSR1 to worker.pid: never let a fake pid reach the real os.kill
        def __getattr__(self, name):
            return getattr(real_os, name)

        @staticmethod
        def kill(pid, sig):
            return None

    fail_ids = set(fail_ids)

    unpicklable_ids = set(unpicklable_ids or ())

    attempts = {}

    def f(x):
        if x in fail_ids:
            attempts[x] = attempts.get(x, 0) + 1
            if not is_transient(fail_kind + x) or attempts[x] <= 2:
                raise task_error(fail_kind + x, x)
        if x in unpicklable_ids:
            return {"value": x * 2 + 1, "render": (lambda: x)}   # a container holding something that cannot be pickled
        return x * 2 + 1

    if gen_task:
        plain_f = f

        def f(x):   # noqa: F811  - the production workers are generator functions: their body (and its exception) runs when consumed
            yield plain_f(x)

    out = {"delivered": [], "raised": None, "bound": False, "run_result": None}
    with _lock:
        P.mp, P.time, P.os = fake.mp, fake.time, _FakeOs()
        try:
            if partial_task:
                import functools
                pool = P.Parallel(functools.partial(lambda pad, x: f(x), "pad")).tune(parallel=par, max_tasks=max_tasks)
            else:
                pool = P.Parallel(f).tune(parallel=par, max_tasks=max_tasks)
            if callback and callback.get("progress_logger"):
                from annet.api import PoolProgressLogger    # what api.gen/diff/patch register for --show-hosts-progress
                pool.add_callback(PoolProgressLogger({i: "h%d" % i for i in range(n)}))
            elif callback:
                bad = set(callback["raise_for"])

                def cb(_pool, tr):
                    # a reporting callback: hands the outcome on, but trips over some of them
                    if tr.device_id in bad:
                        if callback.get("exc_kind") == 1:
                            raise InitTwoError(7, "cb-boom-%s" % tr.device_id)
                        raise RuntimeError("cb-boom-%s" % tr.device_id)
                    return tr
                pool.add_callback(cb, in_thread=bool(callback.get("in_thread")))
            ids = list(range(n))
            try:
                if use_run:
                    ok, bad = pool.run(ids, tolerate_fails=tolerate)
                    out["run_result"] = (dict(ok), {k: repr(v) for k, v in bad.items()})
                else:
                    k = 0
                    for r in pool.irun(ids, tolerate_fails=tolerate):
                        out["delivered"].append((r.device_id, r.result, None if r.exc is None else
                                                 getattr(r.exc, "orig_exc_msg", repr(r.exc))))
                        d = consumer_delays[k % len(consumer_delays)] if consumer_delays else 0
                        k += 1
                        for _ in range(d):
                            S.switch("parent")
            except StepBound:
                out["bound"] = True
            except Exception as e:
                out["raised"] = (type(e).__name__, getattr(e, "orig_exc_msg", str(e)), getattr(e, "device_id", None))
        finally:
            # release every party still parked so that no thread outlives the case
            with S.cv:
                for name in list(S.parties):
                    if name != "parent":
                        S.killed.add(name)
            for _ in range(10 * (len(fake.threads) + 1)):
                with S.cv:
                    alive = [nm for nm in S.parties if nm != "parent"]
                    if not alive:
                        break
                    S.current = alive[0]
                    S.cv.notify_all()
                for th in fake.threads:
                    th.join(0.01)
            for th in fake.threads:
                th.join(1.0)
            P.mp, P.time, P.os = real_mp, real_time, real_os
    out["trace_len"] = len(S.trace)
    out["steps"] = S.steps
    out["events"] = sorted(set(S.events))
    out["crashes"] = fake.worker_crashes
    out["leaked_threads"] = sum(1 for th in fake.threads if th.is_alive())
    out["restarts"] = max(0, len(fake.procs) - min(par, n))
    return out
