"""Config rows synthesised from the SHIPPED patching rulebooks (literals copied, placeholders filled,
embedded word regexes sampled from a candidate list and re-validated with re.fullmatch)."""
import functools
import re
from collections import OrderedDict as odict

CAND = ["10GE1/0/1", "Eth-Trunk1", "100", "ipv4", "ip", "ipv6", "Vlanif10", "LoopBack0", "GigabitEthernet0/1", "port-channel1",
        "Ethernet1/1", "a", "1", "10", "VRF_A", "ae1", "et-0/0/1", "xe-0/0/0", "Tunnel1", "Vbdif5", "GE1/0/1.100", "permit", "deny",
        "in", "out", "unicast", "vpnv4", "0", "5", "ospf", "static"]
VALS = ["1", "2", "10", "20", "100", "foo", "bar", "10.0.0.1", "255.255.255.0", "65000", "enable", "P1", "P2", "index", "permit",
        "2 to 5", "7", "10.1.0.0", "24", "description", "x"]


def decidable(tok):
    if tok in ("*", "~"):
        return True
    if tok.startswith("*/") and tok.endswith("/") and len(tok) > 3:
        return True
    return not re.search(r"[*~()\[\]{}|?+\\^$<>]", tok)


def rule_tokens(raw):
    row = raw[:raw.index("%")].strip() if "%" in raw else raw.strip()
    row = re.sub(r"\s+", " ", row)
    if row.startswith("!"):
        return None
    toks = row.replace("(?i)", "").split()
    if not toks or not all(decidable(t) for t in toks) or "~" in toks[:-1] or row.endswith("..."):
        return None
    return toks


NUMS = ["2", "3", "7", "10", "20", "100", "200"]


def instantiate(rnd, toks, rx, numeric=False):
    w = []
    for t in toks:
        if t == "*":
            w.append(rnd.choice(VALS).split(" ")[0])
        elif t == "~":
            w += [rnd.choice(VALS) for _ in range(rnd.randint(1, 2))]
        elif t.startswith("*/"):
            ok = [c for c in CAND if _full(t[2:-1], c)]
            if not ok:
                return None
            w.append(rnd.choice(ok))
        else:
            w.append(t)
    if numeric and toks[-1] != "~":
        w += [rnd.choice(NUMS) for _ in range(rnd.randint(1, 2))]
    elif toks[-1] != "~" and rnd.chance(60):
        w += [rnd.choice(VALS) for _ in range(rnd.randint(1, 2))]
    row = " ".join(w)
    return row if rx.match(row) else None


@functools.lru_cache(maxsize=None)
def _full(r, c):
    try:
        return re.fullmatch(r, c) is not None
    except re.error:
        return False


def usable_rules(level):
    """[(toks, rule)] for rules of one compiled patching level ({'local':..., 'global':...}) the synthesiser can instantiate"""
    out = []
    for part in ("local", "global"):
        for raw, rule in level[part].items():
            if rule.get("type") == "ignore":
                continue
            toks = rule_tokens(raw)
            if toks is not None:
                out.append((toks, rule, raw))
    return out


def _is_default_logic(rule):
    lg = rule["attrs"].get("logic")
    return getattr(lg, "__module__", "").endswith("rulebook.common") and getattr(lg, "__name__", "") in ("default", "undo_redo", "permanent")


def gen_tree(rnd, level, depth=0, width=(1, 5)):
    """tree of rows instantiated from the rules of this level; at most one row per (rule,key) for rules with the standard logic
    (their documented precondition), several lines per key for rules with a list logic (vlan lists, prefix lists, ...)"""
    t = odict()
    rules = usable_rules(level)
    if not rules:
        return t
    seen = set()
    lists = [x for x in rules if not _is_default_logic(x[1])]
    for _ in range(rnd.randint(*width)):
        toks, rule, raw = rnd.choice(lists) if lists and rnd.chance(35) else rnd.choice(rules)
        reps = 1 if _is_default_logic(rule) else rnd.randint(1, 3)
        for _ in range(reps):
            row = instantiate(rnd, toks, rule["attrs"]["regexp"], numeric=not _is_default_logic(rule) and rnd.chance(70))
            if row is None:
                continue
            key = (raw, rule["attrs"]["regexp"].match(row).groups())
            if key in seen and _is_default_logic(rule):
                continue
            seen.add(key)
            ch = odict()
            if rule.get("children") and depth < 2 and (rule["children"]["local"] or rule["children"]["global"]):
                ch = gen_tree(rnd, rule["children"], depth + 1, (0, 4))
            t[row] = ch
    return t


def mutate(rnd, level, tree, depth=0):
    out = odict()
    for row, ch in tree.items():
        x = rnd.randint(0, 99)
        if x < 20:
            continue
        if x < 45 and not ch:
            w = row.split(" ")
            if len(w) > 1:
                w[-1] = rnd.choice(VALS).split(" ")[0]
            out[" ".join(w)] = odict()
            continue
        out[row] = mutate(rnd, None, ch, depth + 1) if ch else odict()
    if level is not None:
        have = set()
        for toks, rule, raw in usable_rules(level):
            for row in out:
                m = rule["attrs"]["regexp"].match(row)
                if m:
                    have.add((raw, m.groups()))
        for row, ch in gen_tree(rnd, level, depth, (0, 3)).items():
            clash = False
            for toks, rule, raw in usable_rules(level):
                m = rule["attrs"]["regexp"].match(row)
                if m and (raw, m.groups()) in have and _is_default_logic(rule):
                    clash = True
            if not clash:
                out.setdefault(row, ch)
    items = list(out.items())
    if rnd.chance(30):
        rnd.shuffle(items)
    return odict(items)
