"""Adapter over hypothesis.strategies.randoms(use_true_random=False).

Every method is still a Hypothesis draw (so cases shrink and replay), but random() is derived from
an integer draw: Hypothesis' float draws are heavily biased towards 0.0 (measured: 31 % of values
below 0.1), which would silently skew every `rnd.random() < p` decision of the generators."""
from hypothesis import strategies as st


class URandom:
    def __init__(self, r):
        self._r = r

    def random(self):
        return self._r.randint(0, 249) / 250.0  # ranges > 255 are size-biased by Hypothesis

    def randint(self, a, b):
        return self._r.randint(a, b)

    def choice(self, seq):
        return seq[self._r.randint(0, len(seq) - 1)]

    def sample(self, seq, k):
        seq = list(seq)
        out = []
        for _ in range(k):
            out.append(seq.pop(self._r.randint(0, len(seq) - 1)))
        return out

    def shuffle(self, lst):
        for i in range(len(lst) - 1, 0, -1):
            j = self._r.randint(0, i)
            lst[i], lst[j] = lst[j], lst[i]

    def chance(self, percent):
        return self._r.randint(0, 99) < percent


def urandoms():
    return st.randoms(use_true_random=False, note_method_calls=False).map(URandom)


class FdpRandom:
    """The same interface over an atheris FuzzedDataProvider: the generators written in 'random.Random style' then run on fuzzer-chosen
    bytes, which makes every generated case reachable by coverage-guided mutation (when the bytes run out every draw returns its
    minimum, i.e. the generators fall back to their smallest choices)."""

    def __init__(self, fdp):
        self._f = fdp

    def random(self):
        return self._f.ConsumeIntInRange(0, 249) / 250.0

    def randint(self, a, b):
        return self._f.ConsumeIntInRange(a, b)

    def choice(self, seq):
        return seq[self._f.ConsumeIntInRange(0, len(seq) - 1)]

    def sample(self, seq, k):
        seq = list(seq)
        out = []
        for _ in range(k):
            out.append(seq.pop(self._f.ConsumeIntInRange(0, len(seq) - 1)))
        return out

    def shuffle(self, lst):
        for i in range(len(lst) - 1, 0, -1):
            j = self._f.ConsumeIntInRange(0, i)
            lst[i], lst[j] = lst[j], lst[i]

    def chance(self, percent):
        return self._f.ConsumeIntInRange(0, 99) < percent
