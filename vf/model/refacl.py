"""Reference model of ACL coverage (docs/usage/acl.rst), on top of the word-level reference matcher.

ACL rule JSON: {"toks": [...], "children": [...], "glob": bool, "cd": None|0|1}
A generator's ACL is a list of such rules; several generators' ACLs are combined by tagging every
line with %generator_names=<name> and concatenating the texts (the production path,
RunGeneratorResult.acl_text).

 * a row at a level is covered iff it matches, directly, a local rule of that level or an inherited
   %global rule;
 * the rules for its children: the union of the children of all matching local rules, plus the
   inherited globals (a row covered only by a global rule gets the globals only);
 * cant_delete: explicit flag, or the built-in default (rule text starts with 'interface').
"""
from collections import OrderedDict as odict

from .refmatch import ref_match


def acl_rule(toks, children=(), glob=False, cd=None, icase=False):
    return {"toks": list(toks), "children": list(children), "glob": glob, "cd": cd, "icase": icase}


def acl_lines(rules, ind=0):
    out = []
    for r in rules:
        t = " " * ind + ("(?i)" if r.get("icase") else "") + " ".join(r["toks"])
        if r.get("glob"):
            t += " %global"
        if r.get("cd") is not None:
            t += " %%cant_delete=%d" % r["cd"]
        out.append(t)
        out += acl_lines(r["children"], ind + 4)
    return out


def acl_text(rules):
    return "\n".join(acl_lines(rules)) + "\n"


def combined_text(named_acls):
    """what RunGeneratorResult.acl_text() produces: every line tagged with its generator's name"""
    text = ""
    for name, rules in named_acls:
        for line in acl_lines(rules):
            text += line.rstrip() + "  %generator_names=" + name + "\n"
    return text


def cant_delete(r):
    if r.get("cd") is not None:
        return bool(r["cd"])
    return r["toks"][0].startswith("interface")


class ACtx:
    """rules applicable at one level: list of (gen_name, rule) local, and inherited globals"""

    def __init__(self, local, globs=(), norm=None, rev=None):
        self.local = [(g, r) for (g, r) in local if not r.get("glob")]
        self.globs = [(g, r) for (g, r) in local if r.get("glob")] + list(globs)
        self.norm = norm  # vendor-specific row normalisation (juniper: the 'inactive: ' marker is not part of the line)
        self.rev = rev    # the vendor's negation word, when negated lines ('undo x') are part of the domain: such a line is covered by
        #                   the rule that covers 'x' (through the rule's negated form); it never contributes children rules

    @classmethod
    def top(cls, named_acls, norm=None, rev=None):
        return cls([(name, r) for name, rules in named_acls for r in rules], norm=norm, rev=rev)

    def _hit(self, r, row):
        if ref_match(r["toks"], row, bool(r.get("icase"))) is not None:
            return True
        if self.rev and row.startswith(self.rev + " ") and r["toks"][0] != self.rev:
            return ref_match(r["toks"], row[len(self.rev) + 1:], bool(r.get("icase"))) is not None
        return False

    def cover(self, row):
        if self.norm:
            row = self.norm(row)
        m = [(g, r) for (g, r) in self.local if self._hit(r, row)]
        gm = [(g, r) for (g, r) in self.globs if self._hit(r, row)]
        return m, gm

    def covered(self, row):
        m, gm = self.cover(row)
        return bool(m or gm)

    def child(self, row):
        m, gm = self.cover(row)
        nrow = self.norm(row) if self.norm else row
        m = [(g, r) for (g, r) in m if ref_match(r["toks"], nrow, bool(r.get("icase"))) is not None]   # direct matches only
        if not m:
            return ACtx([], self.globs, self.norm, self.rev)
        ch = [(g, c) for (g, r) in m for c in r["children"]]
        return ACtx(ch, self.globs, self.norm, self.rev)

    def deletable_generators(self, row):
        """names of generators having a deletable rule that matches the row"""
        m, gm = self.cover(row)
        per = {}
        for g, r in m + gm:
            per[g] = per.get(g, True) and cant_delete(r)
        return sorted(g for g, flag in per.items() if not flag)

    def not_deletable(self, row):
        """covered, and every matching rule of every generator is marked as not deletable"""
        m, gm = self.cover(row)
        return bool(m or gm) and all(cant_delete(r) for _, r in m + gm)


def ref_filter(tree, actx: ACtx):
    out = odict()
    for row, ch in tree.items():
        if not actx.covered(row):
            continue
        out[row] = ref_filter(ch, actx.child(row))
    return out


def first_uncovered(tree, actx: ACtx, path=()):
    """first row (depth-first, input order) that is uncovered while all its ancestors are covered"""
    for row, ch in tree.items():
        if not actx.covered(row):
            return path + (row,)
        sub = first_uncovered(ch, actx.child(row), path + (row,))
        if sub:
            return sub
    return None


def is_subtree(a, b):
    """a is an order-preserving sub-tree of b"""
    it = iter(b.items())
    for row, ch in a.items():
        for brow, bch in it:
            if brow == row:
                if not is_subtree(ch, bch):
                    return False
                break
        else:
            return False
    return True
