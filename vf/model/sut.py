"""Thin access layer to the code under test (annet, imported in place from /repo)."""
import functools

from annet.hardware import AnnetHardwareProvider, hardware_connector
from annet.rulebook import DefaultRulebookProvider, rulebook_provider_connector

hardware_connector.set(AnnetHardwareProvider)
rulebook_provider_connector.set(DefaultRulebookProvider)

from annet.annlib.netdev.views.hardware import HardwareView  # noqa: E402
from annet.annlib.rbparser.ordering import compile_ordering_text  # noqa: E402
from annet.rulebook.deploying import compile_deploying_text  # noqa: E402
from annet.rulebook.patching import compile_patching_text  # noqa: E402
from annet.vendors import registry_connector  # noqa: E402

# vendor name -> canonical model string used by the checks (block-structured vendors)
BLOCK_VENDORS = {
    "huawei": "Huawei CE6870",
    "h3c": "H3C S6850",
    "cisco": "Cisco Catalyst 2960",
    "nexus": "Cisco Nexus 3132",
    "iosxr": "Cisco ASR 9000",
    "arista": "Arista DCS-7050",
    "aruba": "Aruba AP-325",
    "b4com": "B4com CS4100",
    "pc": "PC",
}


class Dev:
    """the minimal device object _diff_and_patch needs"""

    def __init__(self, hw, hostname="dev"):
        self.hw = hw
        self.hostname = hostname
        self.fqdn = hostname
        self.id = hostname
        self.breed = "vrp85"


def registry():
    return registry_connector.get()


@functools.lru_cache(maxsize=None)
def hw_for(vendor):
    reg = registry()
    model = BLOCK_VENDORS.get(vendor) or reg[vendor].hardware.model
    hw = HardwareView(model, "")
    got = reg.match(hw)
    if got.NAME != vendor:
        # fall back to the vendor's own canonical hardware
        hw = reg[vendor].hardware
    return hw


def vendor_words(vendor):
    v = registry()[vendor]
    return v.reverse, v.exit


def make_rb(patching_text, vendor, ordering_text="", deploying_text=""):
    return {
        "patching": compile_patching_text(patching_text, vendor),
        "ordering": compile_ordering_text(ordering_text, vendor),
        "deploying": compile_deploying_text(deploying_text, vendor),
    }


def formatter(vendor, indent=""):
    return registry()[vendor].make_formatter(indent=indent)


def diff_and_patch(vendor, old, new, rb, acl=None, filter_acl=None, add_comments=False):
    from annet.api import _diff_and_patch
    return _diff_and_patch(Dev(hw_for(vendor)), old, new, acl, filter_acl, add_comments, rb=rb)


def diff_and_patch_hw(hw, old, new, do_commit=True):
    """with the shipped rulebook of that hardware"""
    from annet.api import _diff_and_patch
    return _diff_and_patch(Dev(hw), old, new, None, None, False, do_commit=do_commit)


def cmd_paths(vendor, patch_tree):
    return list(formatter(vendor).cmd_paths(patch_tree).keys())


def production_acl_text(named_rules, indents=None, comments=0):
    """the combined ACL text exactly as production builds it: every generator's raw ACL literal (with whatever base indentation
    its source has) goes through RunGeneratorResult.acl_text() (%generator_names tagging)"""
    from collections import OrderedDict as odict

    from annet.generators.result import RunGeneratorResult
    from annet.types import GeneratorPartialResult
    from vf.model.refacl import acl_lines
    res = RunGeneratorResult()
    for i, (name, rules) in enumerate(named_rules):
        pad = " " * (indents[i] if indents else 0)
        lines = [pad + l for l in acl_lines(rules)]
        if comments:
            # hand-written ACL literals carry comments: an indented '# ...' line is skipped and keeps the nesting
            out = []
            for j, l in enumerate(lines):
                ind = len(l) - len(l.lstrip(" "))
                if ind and (j * 7 + comments + i) % 3 == 0:
                    out.append(" " * ind + "# " + "note %d" % j)
                out.append(l)
            lines = out
        raw = "\n" + "".join(l + "\n" for l in lines) + pad
        res.add_partial(GeneratorPartialResult(name=name, tags=[], acl=raw, acl_rules=None, acl_safe="", acl_safe_rules=None, output="",
                                               config=odict(), safe_config=odict(), perf=None))
    return res.acl_text()
