"""Reference matcher for the rule language, word level, written from the documented semantics
(docs/usage/acl.rst, the rule-language statement of C07) - no regex for the pattern structure.

pattern tokens:  literal word | '*' (exactly one word) | '*/R/' (one word w with re.fullmatch(R, w))
                 | trailing '~' (the remaining >=1 words, joined by single spaces)
without trailing '~' the row may continue after the pattern (word-boundary prefix match).
'(?i)' anywhere in the pattern: literals and regexes compare case-insensitively.
"""
import re


def split_pattern(pattern: str):
    icase = "(?i)" in pattern
    pattern = pattern.replace("(?i)", "")
    toks = pattern.split()
    return toks, icase


def ref_match(toks, row: str, icase=False):
    """returns the key tuple, or None when the row does not match"""
    words = row.split(" ")
    if "" in words:
        words = row.split()
    key = []
    i = 0
    for j, t in enumerate(toks):
        if t == "~":
            if j != len(toks) - 1:
                raise ValueError("~ only supported at the end")
            if i >= len(words):
                return None
            key.append(" ".join(words[i:]))
            return tuple(key)
        if i >= len(words):
            return None
        w = words[i]
        if t == "*":
            key.append(w)
        elif len(t) > 3 and t.startswith("*/") and t.endswith("/"):
            if not re.fullmatch(t[2:-1], w, re.IGNORECASE if icase else 0):
                return None
            key.append(w)
        else:
            if (t.lower() != w.lower()) if icase else (t != w):
                return None
        i += 1
    return tuple(key)


def ref_reverse(toks, prefix: str, key):
    """the removal command of a rule for a key: the vendor's negation word followed by the rule's
    words with the key substituted; a rule that itself starts with the negation word is negated by
    dropping it."""
    toks = list(toks)
    if toks and toks[0] == prefix and len(toks) > 1:
        toks = toks[1:]
    else:
        toks = [prefix] + toks
    out = []
    k = list(key)
    for t in toks:
        if t == "*" or (len(t) > 3 and t.startswith("*/") and t.endswith("/")) or t == "~":
            out.append(k.pop(0))
        else:
            out.append(t)
    return " ".join(out)
