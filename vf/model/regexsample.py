"""Tiny regex sampler over re's parse tree: returns a few strings each of which (is intended to) contain
a match of the pattern; every sample is re-validated with re.search by the caller."""
import re

try:
    import re._parser as sre_parse  # py3.11+
    import re._constants as sre_c
except ImportError:  # pragma: no cover
    import sre_parse
    import sre_constants as sre_c

LIMIT = 12


def _cat(a, b):
    out = []
    for x in a:
        for y in b:
            out.append(x + y)
            if len(out) >= LIMIT:
                return out
    return out


def _class_sample(items):
    neg = False
    out = []
    for op, av in items:
        if op is sre_c.NEGATE:
            neg = True
        elif op is sre_c.LITERAL:
            out.append(chr(av))
        elif op is sre_c.RANGE:
            out.append(chr(av[0]))
        elif op is sre_c.CATEGORY:
            out.append({sre_c.CATEGORY_DIGIT: "1", sre_c.CATEGORY_SPACE: " ", sre_c.CATEGORY_WORD: "a"}.get(av, "x"))
    if neg:
        for c in "x1 -/":
            if c not in out:
                return [c]
    return out[:3] or ["x"]


def _node(op, av):
    if op is sre_c.LITERAL:
        return [chr(av)]
    if op is sre_c.NOT_LITERAL:
        return ["x" if chr(av) != "x" else "y"]
    if op is sre_c.ANY:
        return ["x"]
    if op is sre_c.IN:
        return _class_sample(av)
    if op is sre_c.CATEGORY:
        return _class_sample([(op, av)])
    if op is sre_c.BRANCH:
        out = []
        for alt in av[1]:
            out += _seq(alt)
        return out[:LIMIT]
    if op is sre_c.SUBPATTERN:
        return _seq(av[3])
    if op in (sre_c.MAX_REPEAT, sre_c.MIN_REPEAT):
        lo, hi, sub = av
        base = _seq(sub)
        outs = []
        for n in sorted({lo, min(max(lo, 1), hi if hi != sre_c.MAXREPEAT else 99)}):
            cur = [""]
            for _ in range(n):
                cur = _cat(cur, base[:2])
            outs += cur
        return outs[:LIMIT] or [""]
    if op is sre_c.AT:
        return [""]
    if op in (sre_c.ASSERT, sre_c.ASSERT_NOT):
        return [""]
    if op is sre_c.GROUPREF:
        return [""]
    return [""]


def _seq(nodes):
    cur = [""]
    for op, av in nodes:
        cur = _cat(cur, _node(op, av))
    return cur


def samples(pattern):
    """a few candidate strings containing a match of pattern (validated by the caller)"""
    try:
        tree = sre_parse.parse(pattern)
    except re.error:
        return []
    out = []
    for s in _seq(tree):
        if s not in out and re.search(pattern, s):
            out.append(s)
    return out[:LIMIT]
