"""Device simulator: *executes* a patch (a list of command paths) on a config tree the way a CLI
device does.  It knows (rule,key) only through the reference matcher (vf.model.refmatch), never
through annet's regexes or reverse templates.
"""
import copy
from collections import OrderedDict as odict

from .rulelang import Ctx, blockish, is_block


class SimError(Exception):
    pass


def rewrite_block(r):
    return any(c.get("rewrite") for c in r["children"])


def apply(paths, dev, ctx: Ctx, rev: str, exitw: str, stats=None, implicit_blocks=False):
    """implicit_blocks: a flat-stream device ('set a b c'): a command that sets something creates the blocks of its path"""
    dev = copy.deepcopy(dev)
    for p in paths:
        cur = dev
        c = ctx
        neg_flat = implicit_blocks and p[-1].startswith(rev + " ") and (_ctx_at(ctx, p[:-1]) is None or _ctx_at(ctx, p[:-1]).classify(p[-1]) is None)
        missing = False
        for blk in p[:-1]:
            if blk not in cur and implicit_blocks:
                if neg_flat:
                    missing = True      # 'delete a b c' where a b does not exist: the device answers "statement not found" and goes on
                    break
                cl0 = c.classify(blk)
                if cl0 is not None:
                    for x in [x for x in cur if c.ident(x) == (cl0[0]["id"], cl0[1])]:
                        del cur[x]
                    cur[blk] = odict()
            if blk not in cur:
                raise SimError("command %r is sent inside block %r, which does not exist on the device at that point" % (p[-1], blk))
            cl = c.classify(blk)
            if cl is None:
                raise SimError("unknown block row %r" % (blk,))
            c = c.child(cl[0], blk)
            cur = cur[blk]
        if missing:
            if stats is not None:
                stats["undo-nothing"] = stats.get("undo-nothing", 0) + 1
            continue
        cmd = p[-1]
        if exitw and cmd == exitw and len(p) > 1:
            continue
        if cmd.startswith(rev + " ") and c.classify(cmd) is None:
            x = cmd[len(rev) + 1:]
            cl = c.classify(x)
            if cl is None:
                raise SimError("removal of something no rule knows: %r" % (p,))
            ident = (cl[0]["id"], cl[1])
            victims = [r for r in cur if c.ident(r) == ident]
            if not victims and stats is not None:
                stats["undo-nothing"] = stats.get("undo-nothing", 0) + 1
            for v in victims:
                del cur[v]
            continue
        cl = c.classify(cmd)
        if cl is None:
            raise SimError("unknown command %r" % (p,))
        r, key = cl
        ident = (r["id"], key)
        same = [x for x in cur if c.ident(x) == ident]
        if same and same[0] == cmd:
            if is_block(r) and rewrite_block(r):
                cur[cmd] = odict()  # entering a rewrite-only block resets its content
            continue
        for x in same:
            del cur[x]
        cur[cmd] = odict()
    return dev


def _ctx_at(ctx, blocks):
    c = ctx
    for blk in blocks:
        cl = c.classify(blk)
        if cl is None:
            return None
        c = c.child(cl[0], blk)
    return c


def expect(old, new, ctx: Ctx):
    """documented final state: new restricted to known rows, plus: removed permanent rows stay,
    ignore_changes keys present on both sides keep the old text, unknown rows of old stay."""
    out = odict()
    for row, ch in new.items():
        cl = ctx.classify(row)
        if cl is None:
            continue
        r, key = cl
        ident = (r["id"], key)
        oldsame = [o for o in old if ctx.ident(o) == ident]
        if r.get("logic") == "common.ignore_changes" and oldsame and oldsame[0] != row:
            out[oldsame[0]] = odict()
            continue
        if r.get("rewrite"):
            out[row] = copy.deepcopy(ch)    # the content of a %rewrite object is replaced as a whole: exactly the new lines, nested ones included
        else:
            out[row] = expect(old.get(row, odict()), ch, ctx.child(r, row)) if blockish(ctx, r, row) else odict()
    for row, ch in old.items():
        cl = ctx.classify(row)
        if cl is None:
            out[row] = copy.deepcopy(ch)
            continue
        r, key = cl
        ident = (r["id"], key)
        if r.get("logic") == "common.permanent" and not any(ctx.ident(n) == ident for n in new):
            out[row] = expect(ch, odict(), ctx.child(r, row)) if blockish(ctx, r, row) else odict()
    return out


def same_state(got, exp, ctx: Ctx):
    """unordered comparison per block; ordered comparison among rows of %ordered rules; returns None or a reason"""
    if set(got) != set(exp):
        return "rows differ: only on device %r, only expected %r" % (sorted(set(got) - set(exp)), sorted(set(exp) - set(got)))

    def is_ordered(row):
        cl = ctx.classify(row)
        return cl is not None and cl[0].get("ordered")

    og = [r for r in got if is_ordered(r)]
    oe = [r for r in exp if is_ordered(r)]
    if og != oe:
        return "order of %%ordered rows differs: device %r, expected %r" % (og, oe)
    for r in got:
        cl = ctx.classify(r)
        if cl is None:
            if got[r] != exp[r]:
                return "unknown row %r subtree changed" % (r,)
            continue
        why = same_state(got[r], exp[r], ctx.child(cl[0], r))
        if why:
            return "in %r: %s" % (r, why)
    return None
