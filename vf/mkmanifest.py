"""Regenerates /verif/MANIFEST.json from the table below (run: /venv/bin/python -m vf.mkmanifest)."""
import json
import os

VERIF = os.path.dirname(os.path.dirname(os.path.abspath(__file__)))
PY = "PYTHONHASHSEED=0 PYTHONDONTWRITEBYTECODE=1 /venv/bin/python -m vf.run"

# pid -> (technique, level text, level note, design ref)
CHECKS = {
    "C05": ("exhaustive enumeration + Hypothesis generation against an independent reference offside parser",
            "Every text up to the stated length over the stated line alphabet is enumerated (exhaustive for that bound) and "
            "longer random texts are generated; parse_to_tree must give the reference parser's tree or refuse exactly when "
            "the reference refuses. Generated search: shows the law on everything explored, not absence of defects beyond it.",
            "Trusted: vf/model/offside.py (40 lines, written from the property statement); CommonFormatter.split as line splitter.",
            "DESIGN.md section 4, C05"),
}

CHECKS.update({
    "C01": ("Hypothesis-generated rulebooks/config chains; patches executed on a reference device simulator (model-based oracle)",
            "Generated rulebooks over the whole rule language, device trees and chains of up to 4 targets, 13 vendors; every emitted patch is executed "
            "command by command on an independent device simulator (block-structured streams as sent; the flat set/delete streams of juniper, "
            "ribbon, nokia through the check's own walk of the patch tree, which the sent stream must spell line by line) and must reach the "
            "target, after which the second diff and patch must be empty. Exploration: held on every generated chain; says nothing about rulebooks outside the generator's grammar.",
            "Trusted: vf/model/devsim.py + refmatch.py (device semantics per (rule,key)); block rows fully keyed; sibling rules disjoint.",
            "DESIGN.md section 4, C01"),
    "C03": ("Hypothesis-generated rulebooks/config pairs; projection laws, validity predicate for %ordered, and round-trip of both text views",
            "For generated (rulebook, old, new): the diff projects back to old and to new, ops are exact, self-diff is empty, %ordered groups "
            "satisfy a validity predicate, and formatter.diff (7 vendor formatters) and the `annet diff` view re-read by an independent "
            "signed-text parser give the same entries. Exploration over generated inputs.",
            "Trusted: the independent signed-text readers in vf/props/c03.py; vendor %diff_logic functions out of scope as stated.",
            "DESIGN.md section 4, C03"),
})

CHECKS.update({
    "C12": ("schedule-controlled execution of the real pool code (Hypothesis-drawn interleavings) + real-process grid",
            "The real Parallel.irun/pool_worker run under a deterministic baton scheduler whose choices Hypothesis draws and shrinks "
            "(n<=12, pool<=4, max_tasks<=5, failing tasks, slow consumers); every schedule must deliver exactly the submitted ids with "
            "the right payloads and terminate. A real multiprocessing grid can additionally confirm (never refute) a loss. Exploration of "
            "interleavings, not exhaustive.",
            "Trusted: vf/model/poolsim.py (scheduling points = queue ops, process start/exit, join); annet.parallel's mp/time/os names are "
            "substituted inside the harness process only.",
            "DESIGN.md section 4, C12"),
})

CHECKS.update({
    "C07": ("exhaustive pattern x row enumeration + shipped rule lines + Hypothesis patterns against a word-level reference matcher",
            "All 3120 patterns of the stated grammar against all 3905 rows (12.2 M pairs, exhaustive for that bound), every rule line of the "
            "shipped rulebooks for 20 hardware models with synthesised positives and near-miss mutants, and generated longer patterns through "
            "all five rulebook kinds: match/no-match, key and removal command must equal the reference's. Exhaustive inside the bound, "
            "exploration outside it.",
            "Trusted: vf/model/refmatch.py (word-level matcher, 60 lines); shipped lines with word-spanning regexes are counted undecided.",
            "DESIGN.md section 4, C07"),
})

CHECKS.update({
    "C04": ("Hypothesis-generated trees per vendor; round-trip oracle tree -> vendor text -> tree and text fixed point",
            "For all 14 registered vendors, generated well-formed trees (depth<=5) must survive join -> parse with rows, nesting and order "
            "intact, re-rendering must be a fixed point, and `annet gen`'s format_config_blocks output must parse back. Round-trip oracle "
            "over generated inputs (exploration).",
            "Trusted: nothing beyond tree equality; domain restrictions per vendor are listed in the evidence assumptions (cisco "
            "address-family blocks end with exit-address-family).",
            "DESIGN.md section 4, C04"),
})

CHECKS.update({
    "C06": ("Hypothesis-generated ACL pairs and trees against an independent reference coverage model; idempotence / union metamorphic relations",
            "Generated ACL texts (nesting, *, ~, %global, %cant_delete, two generators merged through the production tagging) and trees "
            "built partly from the ACL rules; apply_acl must equal the reference filter as an ordered tree, be idempotent, be monotone "
            "under ACL union, and strict mode must raise exactly for the reference's first uncovered row, naming it. Exploration.",
            "Trusted: vf/model/refacl.py + refmatch.py; %global rules restricted to catch-alls and literal leaves; no %prio.",
            "DESIGN.md section 4, C06"),
})

CHECKS.update({
    "C02": ("Hypothesis-generated rulebooks, device/target trees and merged generator ACLs; patch executed on the device simulator; reference ACL coverage as oracle",
            "Patches computed under 1..3 merged generator ACLs are checked path by path against an independent coverage model and then "
            "executed on the device simulator: uncovered rows must be untouched and rows covered only by not-deletable rules must keep "
            "their key on the device. Exploration over generated inputs.",
            "Trusted: vf/model/refacl.py, devsim.py; only logics emitting the row or its negation; mixed deletable/not-deletable matches not asserted.",
            "DESIGN.md section 4, C02"),
})

CHECKS.update({
    "C08": ("Hypothesis-generated ordering rulebooks with a reference rank oracle; permutation and idempotence laws; metamorphic deletion on the shipped corpus",
            "Generated ordering rulebooks (disjoint siblings, pinned %order_reverse entries, %global entries, nesting) over generated "
            "patching rulebooks and config pairs: sibling commands must respect the reference rank, a removal precedes the re-creation of "
            "its key, sorting only permutes; order_config is a permutation per block, idempotent and stable for unmentioned rows on all "
            "vendors; on the 192 shipped pairs deleting an unrelated row never changes the relative order of the rest. Exploration.",
            "Trusted: reference rank in vf/props/c08.py (written from docs/usage/acl.rst); ties and cross-list pairs are not compared; "
            "pinned removals are exempt from the removal-before-re-creation clause.",
            "DESIGN.md section 4, C08"),
})

CHECKS.update({
    "C11": ("exhaustive enumeration of VLAN set pairs x line splittings + Hypothesis sets over 1..4094; commands executed on a VLAN-set device model",
            "All ordered pairs of subsets of a small universe, in every splitting over config lines, for six shipped rule kinds (device "
            "and file front ends), plus random sets over 1..4094: the emitted add/remove commands are executed on a set model; the final "
            "set must be S_new and no VLAN of S_old & S_new may disappear even transiently; expand/collapse helpers round-trip. "
            "Exhaustive inside the bound, exploration outside.",
            "Trusted: the VLAN device model and range helpers in vf/props/c11.py (independent of annet's helpers).",
            "DESIGN.md section 4, C11"),
    "C16": ("differential testing of the two front ends over the shipped corpus, its cross products and Hypothesis trees synthesised from shipped rule lines",
            "File front end (_read_old_new_diff_patch and the real file_patch_worker/file_diff_worker on temp files) against device front "
            "end (_diff_and_patch) on the 192 shipped pairs, cross products and generated trees with partially changed lists: command "
            "streams, stripped diffs and diff texts must be equal. Differential exploration.",
            "Trusted: none beyond equality of the two production paths; identical errors on both sides count as agreement.",
            "DESIGN.md section 4, C16"),
})

CHECKS.update({
    "C13": ("Hypothesis-generated schemas/documents/pointer lists; independent pointer model, round trip make_patch/apply_patch, sub-document predicate",
            "Documents, fragments and glob-pointer ACLs drawn from one schema (keys with '/', '~', '|', '*'; arrays up to 14 elements): the "
            "fragment merge must equal the independent model (inside the pointers the fragment, outside old, idempotent), the JSON patch "
            "must reproduce the target when applied, filters must return parts of the document, and chained generators must equal the "
            "folded model. Exploration.",
            "Trusted: vf/model/jsonmodel.py; patterns descending into arrays are outside the stated domain and not generated.",
            "DESIGN.md section 4, C13"),
})

CHECKS.update({
    "C17": ("Hypothesis-generated trees per hardware family against an independent completion model; idempotence and metamorphic patch relation",
            "For 15 model/tag combinations covering every branch of the implicit tables: completion must equal the independent model, keep "
            "every explicit line, be idempotent, and a default implied on both sides must add no diff entry and no command (metamorphic: "
            "the patch with and without those lines). Exploration.",
            "Trusted: completion model in vf/props/c17.py; pattern matching itself delegated to the compiled rule regexp (C07's subject).",
            "DESIGN.md section 4, C17"),
})

CHECKS.update({
    "C18": ("exhaustive enumeration of the device database with synthesised model strings; permutation differential on vendor registration; load + determinism of rulebooks",
            "Every one of the 168 devdb sequences (model strings synthesised from the regex chain, 3 each, x 5 software shapes) and every "
            "vendor's canonical hardware: hierarchical truth, one vendor under all 14 rotations (and random permutations) of the "
            "registration order equal to the most specific one, rulebooks load with all logic functions resolved, and two fresh providers "
            "agree structurally. Exhaustive over the devdb; permutations sampled.",
            "Trusted: vf/model/regexsample.py only as a generator (every sample is re-validated with re.search).",
            "DESIGN.md section 4, C18"),
})

CHECKS.update({
    "C19": ("Hypothesis-generated Entire generator sets, all listing orders, old file maps and reload modes against a reference model of selection / upload / reload / diff",
            "1..5 generated Entire generators in every listing order (<=120), old file maps and reload/acl_safe modes through "
            "run_file_generators, PCDeployerJob.parse_result and pc_diff: content from the max-priority generator, upload exactly when "
            "content differs or forced, reload only when enabled, diff shown iff contents differ. One recorded finding (terminator-only / "
            "absent-vs-empty differences) is listed in known_findings.json and excluded from the remaining assertions. Exploration.",
            "Trusted: the reference model in vf/props/c19.py; own DeployDriver stub with an empty session wrapper.",
            "DESIGN.md section 4, C19"),
})

CHECKS.update({
    "C09": ("Hypothesis-generated PatchTrees and deploy rulebooks; three renderings compared (shown text, cmd_paths, driver command list) + reference wrapper table + reference rule matching",
            "PatchTrees from make_patch and synthetic ones with the special block exits, for every block-structured vendor and hardware "
            "variant, all four (do_commit, do_finalize) combinations: the displayed patch, the command paths and the body of the command "
            "list given to the driver must be the same sequence at the same depths; the wrapper must equal the per-hardware reference "
            "table; generated deploy rulebooks must give each command its rule's timeout and dialog answers. Exploration.",
            "Trusted: wrapper table and rule-chain matcher in vf/props/c09.py; sibling rows distinct; unmatched intermediate levels not asserted.",
            "DESIGN.md section 4, C09"),
})

CHECKS.update({
    "C10": ("Hypothesis-generated generator programs (yield/block/block_if/multiblock op trees) with per-generator ACLs, run through the production step against a reference model",
            "1..3 generated PartialGenerator programs with ACLs derived from what they yield, through annet.gen._old_new_per_device: "
            "an uncovered row must fail with GeneratorError naming it, two deletable owners of one row must be reported as a conflict, "
            "otherwise the desired config must equal the union of yielded paths in first-seen order. Exploration over programs.",
            "Trusted: the op-tree interpreter/model in vf/props/c10.py and vf/model/refacl.py; run_partial_initial stubbed (empty device config).",
            "DESIGN.md section 4, C10"),
})

CHECKS.update({
    "C20": ("Hypothesis-drawn job sequences in a long-lived process compared with fresh-interpreter baselines (differential over histories) + before/after snapshots",
            "Sequences of up to 12 jobs (shipped corpus pairs with their shipped rulebooks, synthetic jobs over shared synthetic rulebooks "
            "with rule-mutating logic and shared ACL texts) run in one process: each result must equal the result of the same job in a "
            "fresh interpreter, the caller's trees and the compiled rulebook must be unchanged by each call, and a logic function must "
            "always see a pristine rule; every job is also run alone in new interpreters started with other string-hash seeds "
            "(PYTHONHASHSEED 1..5) and must give the seed-0 result. Exploration over histories.",
            "Trusted: canonical form of compiled rulebooks (vf/props/c18.canon); fresh baselines come from the same code (history vs no history).",
            "DESIGN.md section 4, C20"),
})

CHECKS.update({
    "C15": ("Hypothesis-generated topologies and data-table handlers against an independent mesh reference model; mirror relation; registration-order permutations; merge laws",
            "Generated topologies (2..5 devices, parallel links) and 1..4 handler tables (direct/indirect, name templates, filters, port "
            "processors, VRF plane, LAG/SVI/sub-interface selection): execute_for on every device must equal the reference model's peers "
            "or raise the conflict error exactly when the model finds one, sessions must be mirrored on both ends, the outcome must be "
            "the same for every registration order (<=24), and merge() must obey the declared mergers on random model instances. "
            "Exploration.",
            "Trusted: the reference mesh model in vf/props/c15.py (own template matcher, filter evaluation, field merge); fake Storage/Device.",
            "DESIGN.md section 4, C15"),
})

CHECKS.update({
    "C14": ("Hypothesis-generated RouteMap programs (documented DSL) over a fixed entity set, run through the shipped huawei/arista/cumulus back-ends; ACL, nesting, refs-subset-of-defs and error-atomicity oracles",
            "Generated policies (conditions R.*, actions rule.*) for huawei and arista through _run_partial_generator with ACL enforcement "
            "and for cumulus through generate_cumulus_rpl: no generator may fail its own ACL, every yielded row must be found under its "
            "recorded block path in the parsed output, every list name a policy line refers to must be defined by the list generators "
            "fed the same inputs, and an unsupported action must be refused before any of its lines is emitted. Exploration over programs.",
            "Trusted: the refs/defs line classifiers in vf/props/c14.py; inputs respect the documented preconditions.",
            "DESIGN.md section 4, C14"),
})

NOT_YET = {}


def main():
    props = [json.loads(l) for l in open(os.path.join(VERIF, "properties.jsonl"))]
    checks = []
    na = []
    for p in props:
        pid = p["id"]
        if pid in CHECKS:
            tech, text, note, ref = CHECKS[pid]
            checks.append({
                "property_id": pid,
                "quick_cmd": f"{PY} {pid} --tier quick",
                "thorough_cmd": f"{PY} {pid} --tier thorough",
                "evidence_file": f"/verif/evidence/{pid}.json",
                "replay_cmd_template": f"{PY} {pid} --replay {{path}}",
                "engine": "vf",
                "level_claimed": {"category": "exploration", "text": text, "design_ref": ref},
                "level_note": note,
                "technique": tech,
            })
        else:
            na.append({"property_id": pid, "reason": NOT_YET.get(pid, "check not built yet in this round (work in progress; no technique switch intended)")})
    man = {
        "version": 1,
        "setup_cmd": "(/venv/bin/python -c 'import hypothesis' 2>/dev/null || /venv/bin/pip install --no-index --find-links /opt/veriftools/wheels hypothesis) && "
                     "(PYTHONPATH=.deps /venv/bin/python -c 'import atheris' 2>/dev/null || /venv/bin/pip install -q --no-index --find-links /opt/veriftools/wheels "
                     "--target .deps atheris || true)",
        "hooks": {
            "guard": "ANNET_VERIF",
            "enable": "no source hooks: annet is pure Python imported in place from /repo by /venv; checks observe public entry points and connectors only",
            "baseline_off_cmd": "cd /repo && /venv/bin/python -m pytest -ra -q -p no:cacheprovider --timeout=900 --continue-on-collection-errors",
            "source_commits": [],
            "add_only": True,
        },
        "engines": [{"name": "vf", "path": "/verif/vf", "serves_properties": sorted(CHECKS),
                     "kind_free_text": "Hypothesis-driven generated search + exhaustive enumeration against reference models, sharded over 16 spawn processes; "
                                       "thorough tier adds coverage-guided atheris/libFuzzer campaigns around the same oracles (vf/core/fuzz_target.py)"}],
        "checks": checks,
        "not_applicable": na,
        "notes": "See DESIGN.md. Known findings: known_findings.json (never written at run time). Seeded breaking changes: seeded/.",
    }
    with open(os.path.join(VERIF, "MANIFEST.json"), "w") as f:
        json.dump(man, f, indent=1)
    print("wrote MANIFEST.json:", len(checks), "checks,", len(na), "not claimed")


if __name__ == "__main__":
    main()
