"""C07 - rule patterns mean what the rule language says, in every rulebook kind."""
import itertools
import re

from hypothesis import strategies as st

from vf.core.runner import Violation
from vf.model.refmatch import ref_match, ref_reverse, split_pattern

PID = "C07"
LEVEL = "exploration"
BUDGET = {"quick": 4000, "thorough": 150000}
ENUM_EXHAUSTIVE = True
EXHAUSTIVE_NOTE = ("every pattern of <=4 tokens over {a, b, *, */[ab]+/, */(a|c)/} x optional trailing ~ x optional (?i), against every row of "
                   "<=5 words over {a, b, c, ab, A} (3120 patterns x 3905 rows, all evaluated); shipped-rule part: every rule line of every shipped "
                   "*.rul/*.order/*.deploy rendered for the listed hardware; the Hypothesis part (longer patterns, richer regexes, all rulebook "
                   "kinds and vendors) is generated, not exhaustive")
RULE = ("Enumerated case = one pattern checked against all 3905 rows (pairs counted in coverage.labels['n:pairs']); a further enumerated "
        "family walks every rule line of the shipped rulebooks (a positive row is synthesised from the line, plus near-miss mutants: literal "
        "changed, literal suffixed across the word boundary, row truncated). Generated case = (pattern of <=6 tokens with word regexes, vendor, "
        "rows) compiled through compile_row_regexp, _make_reverse, compile_acl_text, compile_ordering_text, compile_deploying_text/"
        "match_deploy_rule and implicit.compile_tree. Oracle: vf.model.refmatch (word-level, no regex for the pattern structure): same "
        "match/no-match, same key, same removal command; negating a negated rule gives the plain rule. "
        "Non-trivial: the pattern has a placeholder and some row matches, or a row is a near miss of a matching row.")
ASSUMPTIONS = [
    "embedded regexes are whitespace-free word regexes (the reference decides */R/ with re.fullmatch on one word); shipped lines whose "
    "regexes can span words are counted as undecided, only their synthesised positives are asserted",
    "rows are single-space separated words",
]

TOK = ["a", "b", "*", "*/[ab]+/", "*/(a|c)/"]
ROWW = ["a", "b", "c", "ab", "A"]
_ROWS = None


def _rows():
    global _ROWS
    if _ROWS is None:
        _ROWS = [" ".join(c) for L in range(1, 6) for c in itertools.product(ROWW, repeat=L)]
    return _ROWS


def enumerate_cases(tier, shard, nshards):
    i = 0
    for L in range(1, 5):
        for combo in itertools.product(TOK, repeat=L):
            # the four spellings of one pattern (with/without trailing ~, with/without (?i)) are compiled in ONE process, the (?i) form
            # first for every other pattern: what a spelling means must not depend on which spelling was compiled before
            i += 1
            if i % nshards != shard:
                continue
            for tilde in (False, True):
                for icase in ((False, True) if (i // nshards) % 2 == 0 else (True, False)):
                    yield {"enum": True, "kind": "grid", "pattern": ("(?i)" if icase else "") + " ".join(combo) + (" ~" if tilde else "")}
    for j, (vendor, model) in enumerate(SHIPPED_HW):
        if j % nshards == shard:
            yield {"enum": True, "kind": "shipped", "vendor": vendor, "model": model}


SHIPPED_HW = [
    ("huawei", "Huawei CE6870"), ("huawei", "Huawei NE40E"), ("huawei", "Huawei S6720"), ("huawei", "Huawei Quidway S5328"),
    ("cisco", "Cisco Catalyst 2960"), ("cisco", "Cisco Catalyst 4948"), ("nexus", "Cisco Nexus 3132"), ("nexus", "Cisco Nexus 9316"),
    ("iosxr", "Cisco ASR 9000"), ("arista", "Arista DCS-7050"), ("aruba", "Aruba AP-325"), ("b4com", "B4com CS4100"),
    ("b4com", "B4com CS2148P"), ("juniper", "Juniper MX960"), ("nokia", "Nokia 7750"), ("ribbon", "Ribbon NPT-1300"),
    ("routeros", "RouterOS CCR1036"), ("pc", "PC"), ("optixtrans", "Huawei OptiXtrans DC908"), ("h3c", "H3C S6850"),
]

_WORD_RE = ["[ab]+", "(a|c)", "x\\d", "[a-c]{2}", "(?:foo|ba)", "\\w+", "\\w*Eth[0-9\\/]+", "[a-z]+\\/\\d",
            "(ge|xe)-(\\d+)", "(\\d+)\\.(\\d+)", "(\\d+)|(all)"]   # (regexes made of several groups: the key is still the whole word)


@st.composite
def _cases(draw):
    n = draw(st.integers(1, 6))
    toks = []
    for _ in range(n):
        k = draw(st.integers(0, 9))
        if k < 4:
            toks.append(draw(st.sampled_from(["a", "b", "c", "ab", "undo", "no", "delete", "x1", "notify", "undone", "deleted"])))
        elif k < 7:
            toks.append("*")
        else:
            toks.append("*/" + draw(st.sampled_from(_WORD_RE)) + "/")
    tilde = draw(st.booleans())
    icase = draw(st.integers(0, 4)) == 0
    vendor = draw(st.sampled_from(["huawei", "cisco", "juniper", "routeros", "pc", "arista"]))
    words = st.sampled_from(["a", "b", "c", "ab", "A", "B", "x1", "x12", "foo", "ba", "bb", "cc", "undo", "no", "delete", "abc", "Eth1/0/1", "ge/1", "notify", "undone", "ge-1", "xe-12", "1.2", "all", "7"])
    rows = draw(st.lists(st.lists(words, min_size=1, max_size=8).map(" ".join), min_size=1, max_size=6))
    # how the rule file separates the words of the line (hand-aligned rule files use tabs and runs of blanks), and whether the line
    # carries a %param (the parser takes a different path for lines with and without params)
    sep = draw(st.sampled_from([" ", " ", " ", "\t", "  ", "   "]))
    param = draw(st.sampled_from(["", "", " %comment=x", "  %comment=x"]))
    return {"kind": "gen", "pattern": ("(?i)" if icase else "") + " ".join(toks) + (" ~" if tilde else ""), "vendor": vendor, "rows": rows,
            "sep": sep, "param": param,
            # the same line also as a rule nested under a block rule that ignores case: flags belong to the line that carries them
            "nested_under": draw(st.sampled_from([None, None, "(?i)blk *", "blk * %ignore_case", "blk *"]))}


def strategy(tier):
    return _cases()


def _positive(toks):
    """a row matching the pattern, built from the pattern alone"""
    out = []
    for t in toks:
        if t == "*":
            out.append("b")
        elif t == "~":
            out += ["c", "a"]
        elif t.startswith("*/"):
            for cand in ["a", "ab", "c", "x1", "ba", "cc", "foo", "b", "Eth1/0/1", "GigabitEthernet1/0/1", "Ethernet1/1", "ge/1", "10GE1/0/1",
                         "Vlanif10", "port-channel10", "Loopback0", "100", "Eth-Trunk1", "ge-1", "1.2", "all"]:
                if re.fullmatch(t[2:-1], cand):
                    out.append(cand)
                    break
            else:
                return None
        else:
            out.append(t)
    return " ".join(out)


def _check_pair(pattern, toks, icase, rx, row, prefixes, labels):
    from annet.rulebook.patching import _make_reverse
    m = rx.match(row)
    got = None if m is None else tuple(m.groups())
    exp = ref_match(toks, row, icase)
    if got != exp:
        raise Violation("match", f"pattern {pattern!r} row {row!r}: compile_row_regexp gives {got!r}, the rule language says {exp!r}",
                        {"pattern": pattern, "row": row, "got": got, "expected": exp})
    if exp is not None:
        for prefix in prefixes:
            tmpl = _make_reverse(re.sub(r"\s+", " ", pattern.strip()), prefix, flags=rx.flags)  # as compile_patching_text calls it
            try:
                rgot = tmpl.format(*exp)
            except (IndexError, KeyError) as e:
                raise Violation("reverse", f"pattern {pattern!r}: reverse template {tmpl!r} cannot take key {exp!r}: {e!r}", {"pattern": pattern})
            rexp = ref_reverse(toks, prefix, exp)
            if rgot != rexp:
                raise Violation("reverse", f"pattern {pattern!r} key {exp!r} prefix {prefix!r}: removal command {rgot!r}, expected {rexp!r}",
                                {"pattern": pattern, "row": row})
    return exp


def _grid(case):
    from annet.annlib.rbparser.syntax import compile_row_regexp
    pattern = case["pattern"]
    toks, icase = split_pattern(pattern)
    rx = compile_row_regexp(pattern)
    labels = []
    nmatch = 0
    for row in _rows():
        if _check_pair(pattern, toks, icase, rx, row, ("undo",), labels) is not None:
            nmatch += 1
    labels.append("n:pairs:%d" % len(_rows()))
    labels.append("n:matches:%d" % nmatch)
    if nmatch and any(t.startswith("*") or t == "~" for t in toks):
        labels.append("placeholder-match")
    if icase:
        labels.append("icase")
    return labels


def _decidable(tok):
    if tok in ("*", "~"):
        return True
    if tok.startswith("*/") and tok.endswith("/") and len(tok) > 3:
        r = tok[2:-1]
        return not re.search(r"\\s|\.|\[\^|\s", r)
    return not re.search(r"[*~()\[\]{}|?+\\^$<>/.]", tok)


def _walk(tree, kind, path=()):
    for raw, rule in tree.items():
        yield kind, raw, rule
        ch = rule.get("children")
        if isinstance(ch, dict) and "local" in ch:
            yield from _walk(ch["local"], kind)
            yield from _walk(ch["global"], kind)
        elif isinstance(ch, dict):
            yield from _walk(ch, kind)


def _shipped(case):
    from annet.annlib.netdev.views.hardware import HardwareView
    from annet.annlib.rbparser.syntax import _parse_raw_rule
    from annet.rulebook import get_rulebook
    from vf.model import sut
    labels = []
    hw = HardwareView(case["model"], "")
    rb = get_rulebook(hw)
    rev = sut.registry()[case["vendor"]].reverse
    lines = decided = undec = near = 0
    rules = []
    rules += list(_walk(rb["patching"]["local"], "patching")) + list(_walk(rb["patching"]["global"], "patching"))
    rules += list(_walk(rb["ordering"], "ordering"))
    rules += list(_walk(rb["deploying"], "deploying"))
    for kind, raw, rule in rules:
        attrs = rule["attrs"]
        rx = attrs.get("regexp") or attrs.get("direct_regexp")
        if rx is None:
            continue
        row = re.sub(r"\s+", " ", raw[:raw.index("%")].strip() if "%" in raw else raw.strip())
        row = re.sub(r"^!\s*", "", row)
        lines += 1
        toks, icase = split_pattern(row)
        if bool(rx.flags & re.IGNORECASE):
            icase = True
        if not toks or not all(_decidable(t) for t in toks) or "~" in toks[:-1] or row.endswith("..."):
            undec += 1
            continue
        pos = _positive(toks)
        if pos is None:
            undec += 1
            continue
        decided += 1
        muts = [pos]
        w = pos.split(" ")
        anchored = any(t.startswith("*/") and re.search(r"\$|\^", t.replace("[^", "")) for t in toks)
        # (a '$' inside */regex/ anchors to the end of the ROW: such rules deliberately refuse trailing words; only the positive row,
        #  its key and its removal command are asserted for them)
        for i, t in enumerate(toks if not anchored else []):
            if t not in ("*", "~") and not t.startswith("*/"):
                m1 = list(w); m1[i] = w[i] + "zz"; muts.append(" ".join(m1))       # crosses the word boundary
                m2 = list(w); m2[i] = "zz" + w[i]; muts.append(" ".join(m2))
        if len(w) > 1 and not anchored:
            muts.append(" ".join(w[:-1]))                                           # truncated
        if not anchored:
            muts.append(pos + " extra")
        for r in muts:
            m = rx.match(r)
            got = None if m is None else tuple(m.groups())
            exp = ref_match(toks, r, icase)
            if (got is None) != (exp is None) or (kind == "patching" and got != exp and not m.groupdict()):
                raise Violation("match-shipped", f"{case['model']} {kind} rule {raw!r}: row {r!r}: regexp gives {got!r}, rule language says {exp!r}",
                                {"rule": raw, "row": r, "kind": kind, "model": case["model"]})
            near += 1
        if kind == "patching" and rule.get("type") != "ignore" and "reverse" in attrs:
            key = ref_match(toks, pos, icase)
            rgot = attrs["reverse"].format(*key)
            rexp = ref_reverse(toks, rev, key)
            if rgot != rexp:
                raise Violation("reverse-shipped", f"{case['model']} rule {raw!r}: removal {rgot!r}, expected {rexp!r}", {"rule": raw})
    labels += ["n:shipped-lines:%d" % lines, "n:shipped-decided:%d" % decided, "n:shipped-undecided:%d" % undec,
               "n:shipped-rows:%d" % near, "shipped"]
    return labels


def _gen(case):
    from annet.annlib.rbparser.acl import compile_acl_text
    from annet.annlib.rbparser.acl import _make_reverse as acl_reverse
    from annet.annlib.rbparser.ordering import compile_ordering_text
    from annet.annlib.rbparser.syntax import compile_row_regexp
    from annet.rulebook.deploying import compile_deploying_text, match_deploy_rule
    from annet.rulebook.patching import compile_patching_text
    from annet import implicit
    from vf.model import sut
    pattern, vendor = case["pattern"], case["vendor"]
    toks, icase = split_pattern(pattern)
    rev = sut.registry()[vendor].reverse
    rx = compile_row_regexp(pattern)
    labels = []
    sep = case.get("sep", " ")
    text = sep.join(pattern.split(" ")) + case.get("param", "") + "\n"
    if sep != " ":
        labels.append("spaced")
    rows = list(case["rows"])
    pos = _positive(toks)
    if pos is not None:
        rows.append(pos)
        w = pos.split(" ")
        rows.append(" ".join(w[:-1]) if len(w) > 1 else pos + "zz")
        rows.append(pos + "zz")
        rows.append(pos.upper())          # the same line in other letter case: matches iff the rule carries (?i)
        rows.append(pos.capitalize())
        labels.append("near-miss")
    try:
        acl = compile_acl_text(sep.join(pattern.split(" ")) + "\n", vendor)
        order = compile_ordering_text(sep.join(pattern.split(" ")) + "\n", vendor)
        (prule,) = compile_patching_text(text, vendor)["local"].values()
        dep = compile_deploying_text(text, vendor)
        imp = implicit.compile_tree({"x": {"row": pattern, "type": "normal", "children": {}}})
    except Exception as e:   # a rule line of the grammar must compile in every rulebook kind
        raise Violation("compile-raises", f"rule line {text!r} ({vendor}) does not compile: {type(e).__name__}: {e}", {"pattern": pattern, "text": text})
    # the same rule as an IGNORE rule of a filter ACL ('!row', compile_acl_text(..., allow_ignore=True) - what --filter-acl passes):
    # the '!' marks the rule, it is not part of the row
    try:
        acl_ign = compile_acl_text("!" + sep.join(pattern.split(" ")) + "\n", vendor, allow_ignore=True)
        (irule,) = list(acl_ign["local"].values()) + list(acl_ign["global"].values())
    except Exception as e:
        raise Violation("compile-raises", f"ignore rule {'!' + pattern!r} ({vendor}) does not compile with allow_ignore: {type(e).__name__}: {e}",
                        {"pattern": pattern})
    # the (?i) marker written inside a word regex instead of in front of the row ('interface */(?i)meth[\d\/]+/' in the shipped
    # huawei.order): the whole rule ignores case, in its plain and in its negated form alike
    mid = None
    if icase and any(t.startswith("*/") for t in toks):
        mt = list(toks)
        k = next(i for i, t in enumerate(mt) if t.startswith("*/"))
        mt[k] = "*/(?i)" + mt[k][2:]
        midtext = sep.join(mt) + "\n"
        try:
            mid = (list(compile_acl_text(midtext, vendor)["local"].values())[0], list(compile_ordering_text(midtext, vendor).values())[0])
        except Exception as e:
            raise Violation("compile-raises", f"rule line {midtext!r} ({vendor}) does not compile: {type(e).__name__}: {e}", {"text": midtext})
        labels.append("icase-marker-inside-word-regex")
    if case.get("nested_under"):
        labels.append("nested-rule")
        ntext = case["nested_under"] + "\n    " + text
        try:
            (blk,) = compile_patching_text(ntext, vendor)["local"].values()
            (crule,) = blk["children"]["local"].values()
        except Exception as e:
            raise Violation("compile-raises", f"rule text {ntext!r} ({vendor}) does not compile: {type(e).__name__}: {e}", {"text": ntext})
        for row in rows:
            for r2 in (row, row.upper(), row.capitalize()):
                m = crule["attrs"]["regexp"].match(r2)
                got = None if m is None else tuple(m.groups())
                exp = ref_match(toks, r2, icase)
                if got != exp:
                    raise Violation("match", f"rule {pattern!r} nested under {case['nested_under']!r}: row {r2!r} gives {got!r}, the rule language "
                                    f"says {exp!r} (a rule matches case-insensitively only if IT carries (?i) / %ignore_case)",
                                    {"pattern": pattern, "row": r2, "text": ntext})
    plain = pattern.replace("(?i)", "").strip()
    starts_rev = toks[0] == rev and len(toks) > 1
    # negating a negated rule gives back the plain rule
    # (a rule written with the negation word twice is its own special case: the law is stated for a plain rule and its negation)
    if not (len(toks) > 1 and toks[0] == rev and toks[1] == rev) and acl_reverse(acl_reverse(plain, rev), rev) != plain:
        raise Violation("double-negation", f"negating {plain!r} twice gives {acl_reverse(acl_reverse(plain, rev), rev)!r}", {"pattern": pattern})
    for row in rows:
        exp = _check_pair(pattern, toks, icase, rx, row, (rev,), labels)
        # the rule as the patching compiler sees it in a rule file (whatever blanks separate its words)
        pm = prule["attrs"]["regexp"].match(row)
        if (None if pm is None else tuple(pm.groups())) != exp:
            raise Violation("match", f"rule line {text!r} compiled by compile_patching_text: row {row!r} gives "
                            f"{None if pm is None else tuple(pm.groups())!r}, the rule language says {exp!r}", {"pattern": pattern, "row": row, "text": text})
        if exp is not None:
            rgot = prule["attrs"]["reverse"].format(*exp)
            rexp = ref_reverse(toks, rev, exp)
            if rgot != rexp:
                raise Violation("reverse", f"rule line {text!r} compiled by compile_patching_text: key {exp!r}: removal command {rgot!r}, "
                                f"expected {rexp!r}", {"pattern": pattern, "row": row, "text": text})
        if exp is not None and any(t.startswith("*") or t == "~" for t in toks):
            labels.append("placeholder-match")
        (rid, arule), = acl["local"].items()
        for name, rxx, xrow in (("acl-direct", arule["attrs"]["direct_regexp"], row),
                                ("order-direct", list(order.values())[0]["attrs"]["direct_regexp"], row),
                                ("implicit", list(imp.values())[0]["regexp"], row)):
            if (rxx.match(xrow) is not None) != (exp is not None):
                raise Violation("kind-disagrees", f"{name}: pattern {pattern!r} row {xrow!r}: {rxx.match(xrow) is not None} vs rule language {exp is not None}",
                                {"pattern": pattern, "row": row})
        if (irule["attrs"]["direct_regexp"].match(row) is not None) != (exp is not None):
            raise Violation("kind-disagrees", f"acl-ignore-rule: '!{pattern}' row {row!r}: {irule['attrs']['direct_regexp'].match(row) is not None} "
                            f"vs rule language {exp is not None} (compiled {irule['attrs']['direct_regexp'].pattern!r})", {"pattern": pattern, "row": row})
        if mid is not None:
            for name, rxx in (("acl-direct/(?i) inside", mid[0]["attrs"]["direct_regexp"]), ("order-direct/(?i) inside", mid[1]["attrs"]["direct_regexp"])):
                if (rxx.match(row) is not None) != (exp is not None):
                    raise Violation("kind-disagrees", f"{name}: pattern {pattern!r} row {row!r}: {rxx.match(row) is not None} vs rule language "
                                    f"{exp is not None}", {"pattern": pattern, "row": row})
            if not starts_rev:
                for name, rxx in (("acl-reverse/(?i) inside", mid[0]["attrs"]["reverse_regexp"]),
                                  ("order-reverse/(?i) inside", mid[1]["attrs"]["reverse_regexp"])):
                    if (rxx.match(rev + " " + row) is not None) != (exp is not None):
                        raise Violation("kind-disagrees", f"{name}: negated pattern {pattern!r} vs row {rev + ' ' + row!r}: "
                                        f"{rxx.match(rev + ' ' + row) is not None}, expected {exp is not None}", {"pattern": pattern, "row": row})
        # reverse forms: the negated rule matches the negated row
        if not starts_rev:
            nrow = rev + " " + row
            if (irule["attrs"]["reverse_regexp"].match(nrow) is not None) != (exp is not None):
                raise Violation("kind-disagrees", f"acl-ignore-rule reverse: '!{pattern}' vs row {nrow!r}", {"pattern": pattern, "row": nrow})
            for name, rxx in (("acl-reverse", arule["attrs"]["reverse_regexp"]),
                              ("order-reverse", list(order.values())[0]["attrs"]["reverse_regexp"])):
                if (rxx.match(nrow) is not None) != (exp is not None):
                    raise Violation("kind-disagrees", f"{name}: negated pattern {pattern!r} vs row {nrow!r}: {rxx.match(nrow) is not None}, expected {exp is not None}",
                                    {"pattern": pattern, "row": nrow})
        else:
            prow = " ".join(row.split(" ")[1:]) if row.split(" ")[0] == rev else None
            if prow:
                e2 = ref_match(toks[1:], prow, icase)
                for name, rxx in (("acl-reverse", arule["attrs"]["reverse_regexp"]),
                                  ("order-reverse", list(order.values())[0]["attrs"]["reverse_regexp"])):
                    if (rxx.match(prow) is not None) != (e2 is not None):
                        raise Violation("kind-disagrees", f"{name}: rule {pattern!r} starts with the negation word; its negation should match {prow!r}: "
                                        f"{rxx.match(prow) is not None} vs {e2 is not None}", {"pattern": pattern, "row": prow})
        rule = match_deploy_rule(dep, (row,), {})
        is_default = rule["attrs"]["regexp"].pattern == compile_row_regexp("~").pattern and rule["children"] == {} and pattern.strip() != "~"
        if (not is_default) != (exp is not None) and pattern.replace("(?i)", "").strip() != "~":
            raise Violation("kind-disagrees", f"deploy: pattern {pattern!r} row {row!r}: matched={not is_default}, expected {exp is not None}",
                            {"pattern": pattern, "row": row})
    labels.append("vendor:" + vendor)
    if icase:
        labels.append("icase")
    return labels


def check(case):
    if case["kind"] == "grid":
        return _grid(case)
    if case["kind"] == "shipped":
        return _shipped(case)
    return _gen(case)


def nontrivial(labels):
    return "placeholder-match" in labels or "near-miss" in labels or "shipped" in labels
