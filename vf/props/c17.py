"""C17 - implicit defaults never override explicit config and never cause commands alone."""
import types
from collections import OrderedDict as odict

from hypothesis import strategies as st

from vf.core.runner import Violation
from vf.model import rulelang as RL
from vf.model.rnd import urandoms

PID = "C17"
LEVEL = "exploration"
BUDGET = {"quick": 6000, "thorough": 360000}
FAMILIES = [
    ("Huawei CE6870", []), ("Huawei NE40E", []), ("Huawei S6720", []), ("Arista DCS-7368", []),
    ("Cisco Nexus 3432", []), ("Cisco Nexus 9516", ["spine1"]), ("Cisco Nexus 9516", []), ("Cisco Nexus 9316", []), ("Cisco Nexus 9364", []),
    ("Cisco Nexus 3132", []), ("Cisco Nexus 7000", []), ("Cisco Catalyst 2960", []), ("Cisco Catalyst 3560", []), ("Cisco Catalyst 4948", []),
    ("Cisco ASR 9001", []),
]
POOL = ["interface XGigabitEthernet0/0/1", "interface GigabitEthernet0/0/1", "interface Vlan10", "interface Vla", "interface mgmt0",
        "interface Ethernet1", "interface Ethernet11", "interface Ethernet1/1", "interface Ethernet1/1/2", "interface Loopback0",
        "interface port-channel10", "interface GigabitEthernet0/1", "interface TenGigabitEthernet1/1", "router bgp 65000", "bgp 65000",
        "neighbor 10.0.0.1", "neighbor 2001:db8::1", "user-interface con 0", "user-interface vty 0 4", "line con 0", "ipv4-family unicast",
        "ipv6-family unicast", "aaa", "netconf", "stp mode rstp", "stp disable", "mtu 9000", "shutdown", "description x", "sysname r1",
        "ip address 10.0.0.1 255.255.255.0", "vrf member X"]
RULE = ("Hypothesis draws a hardware family with implicit rules (15 model/tag combinations covering every branch of the implicit tables) "
        "and two trees t, u built level by level from: rows matching the implicit rule patterns of that level (from a pool of concrete "
        "rows and the defaults themselves), explicit variants of the defaults (last word changed), and unrelated rows; children are "
        "generated under rows that match block rules. Oracles: an independent completion model (default added iff no row matches the "
        "rule's pattern at that parent; last matching block rule's children apply; added default blocks are completed too) must equal "
        "merge_dicts(t, implicit.config(t)); t is an order-preserving subtree of the completion; completing again changes nothing; "
        "with the shipped rulebook, a default implied on BOTH sides (absent from t and u, added to both completions at the same place) "
        "yields no diff entry and no patch command. Non-trivial: >=1 default added at depth>=1 and >=1 default suppressed by an explicit row.")
ASSUMPTIONS = [
    "whether a row 'matches the rule's pattern' is decided by the compiled rule regexp (pattern semantics are C07's subject); the "
    "completion algorithm, the laws and the patch-level consequence are what is checked here",
    "a default that is implied on one side only (the other side has an explicit row of the same kind) is a real difference and may "
    "produce commands",
]
FLOORS = {"default-added-nested": 0.15, "default-suppressed": 0.2}


def _device(model, tags):
    from annet.annlib.netdev.views.hardware import HardwareView
    return types.SimpleNamespace(hw=HardwareView(model, ""), tags=list(tags))


def _gen_level(rnd, rules, depth=0):
    t = odict()
    for row, rule in rules.items():
        x = rnd.randint(0, 99)
        cands = [c for c in POOL if rule["regexp"].match(c)]
        if rule["regexp"].match(row):
            cands.append(row)
        chosen = None
        if x < 25 and cands:
            chosen = rnd.choice(cands)
        elif x < 50:
            chosen = row + " " + rnd.choice(["x", "5"])  # a longer line of the same kind: it matches the pattern and suppresses the default
            if not rule["regexp"].match(chosen) and cands:
                chosen = rnd.choice(cands)
        elif x < 65:
            w = row.split(" ")
            chosen = " ".join(w[:-1] + [rnd.choice(["9000", "rstp", "foo", "disable"])]) if len(w) > 1 else row + " x"
        if chosen is not None:
            sub = odict()
            if rule["children"] and rule["regexp"].match(chosen) and depth < 3:
                sub = _gen_level(rnd, rule["children"], depth + 1)
            t.setdefault(chosen, sub)
    for _ in range(rnd.randint(0, 2)):
        r = rnd.choice(POOL)
        if r not in t:
            sub = odict()
            m = [rule for rule in rules.values() if rule["regexp"].match(r) and rule["children"]]
            if m and depth < 3 and rnd.chance(70):
                sub = _gen_level(rnd, m[-1]["children"], depth + 1)
            t[r] = sub
    items = list(t.items())
    rnd.shuffle(items)
    return odict(items)


def _gen_from(rnd):
    from annet import implicit
    fi = rnd.randint(0, len(FAMILIES) - 1)
    model, tags = FAMILIES[fi]
    rules = implicit.compile_rules(_device(model, tags))
    t = _gen_level(rnd, rules)
    u = _gen_level(rnd, rules) if rnd.chance(60) else _mut(rnd, t)
    case = {"family": fi, "t": RL.plain(t), "u": RL.plain(u)}
    if rnd.chance(25):
        # the production step (annet.gen._old_new_per_device with implicit completion on): t is what the device reports (sometimes
        # nothing at all), u is what the generators yield
        case["pipeline"] = True
        if rnd.chance(35):
            case["t"] = {}
        case["pipeline_safe"] = rnd.chance(35)   # with ACLs and --acl-safe: the safe pair of trees is built as well
        # ... by two generators: one whose lines are all safe, one that declares none of its lines safe (its blocks are in the complete
        # output only, although the combined safe ACL would cover them)
        case["pipeline_split"] = case["pipeline_safe"] and rnd.chance(50)
    return case


@st.composite
def _cases(draw):
    return _gen_from(draw(urandoms()))


def fuzz_decode(fdp):
    """coverage-guided tier: the same generator driven by fuzzer-chosen bytes (vf/core/fuzz_target.py)"""
    from vf.model.rnd import FdpRandom
    return _gen_from(FdpRandom(fdp))

def _mut(rnd, t):
    out = odict()
    for k, v in t.items():
        if rnd.chance(20):
            continue
        out[k] = _mut(rnd, v)
    return out


def strategy(tier):
    return _cases()


# ------------------------------------------------------------------ independent completion model
def ref_complete(t, rules, added, suppressed, path=()):
    m = odict()
    for row, ch in t.items():
        matching = [r for r in rules.values() if r["regexp"].match(row)]
        if matching:
            m[row] = ref_complete(ch, matching[-1]["children"], added, suppressed, path + (row,))
        else:
            m[row] = RL.to_odict(RL.plain(ch))
    for drow, rule in rules.items():
        if rule["type"] == "ignore":
            continue
        if any(rule["regexp"].match(r) for r in t):
            if drow not in t:
                suppressed.append(path + (drow,))
            continue
        if drow not in t:
            added.append(path + (drow,))
            m[drow] = ref_complete(odict(), rule["children"], added, suppressed, path + (drow,))
    return m


def _seq(t):
    return [(k, _seq(v)) for k, v in t.items()]


def _is_subtree(a, b):
    it = iter(b.items())
    for row, ch in a.items():
        for brow, bch in it:
            if brow == row:
                if not _is_subtree(ch, bch):
                    return False
                break
        else:
            return False
    return True


def _ref_rules(dev):
    """the device's implicit rules built here from the vendor table (implicit._implicit_tree) - not by implicit.compile_tree; whether a
    line matches a rule's pattern is still decided by the shared pattern compiler (C07's subject)"""
    from annet import implicit
    from annet.annlib.rbparser.syntax import compile_row_regexp

    def build(tree):
        out = odict()
        for _, attrs in tree.items():
            out[attrs["row"]] = {"type": attrs["type"], "regexp": compile_row_regexp(attrs["row"]),
                                 "children": build(attrs["children"]) if attrs.get("children") else odict()}
        return out
    return build(implicit._implicit_tree(dev))


def _canon_rules(rules):
    return [[row, r["type"], r["regexp"].pattern, r["regexp"].flags, _canon_rules(r["children"])] for row, r in rules.items()]


def _baseline_one(fi):
    from annet import implicit
    from vf.model import sut  # noqa: F401  (sets the connectors)
    model, tags = FAMILIES[fi]
    return fi, _canon_rules(implicit.compile_rules(_device(model, tags)))


def _baseline_path():
    import os
    from vf.core.runner import VERIF
    return os.path.join(VERIF, ".scratch", "c17_baseline.json")


def prepare(tier, seed):
    """the implicit rule set of every family, each compiled in a process that has seen no other device"""
    import json
    import multiprocessing as mp
    import os
    ctx = mp.get_context("spawn")
    with ctx.Pool(min(16, os.cpu_count() or 1), maxtasksperchild=1) as pool:
        out = pool.map(_baseline_one, list(range(len(FAMILIES))), chunksize=1)
    os.makedirs(os.path.dirname(_baseline_path()), exist_ok=True)
    with open(_baseline_path(), "w") as f:
        json.dump({str(fi): c for fi, c in out}, f)


_BASE = None


def _baseline():
    global _BASE
    import json
    import os
    if _BASE is None:
        if not os.path.exists(_baseline_path()):
            prepare("quick", 1)
        with open(_baseline_path()) as f:
            _BASE = json.load(f)
    return _BASE


class _PDev:
    def __init__(self, hw, tags):
        import types as _t
        self.hw, self.hostname, self.fqdn, self.id, self.tags, self.breed = hw, "d1", "d1.x", 1, list(tags), "x"
        self.storage = _t.SimpleNamespace(flush_perf=lambda: {})

    def is_pc(self):
        return False


def _pipeline(case, dev0, rules, labels):
    """old and new as annet.gen._old_new_per_device builds them == the reference completion of (device text, generator output)"""
    import logging
    import types as _t
    from unittest import mock

    from annet import gen as G
    from annet.generators import PartialGenerator
    from vf.model import sut
    logging.disable(logging.CRITICAL)
    model, tags = FAMILIES[case["family"]]
    dev = _PDev(dev0.hw, tags)
    t, u = RL.to_odict(case["t"]), RL.to_odict(case["u"])
    fmt = sut.registry().match(dev.hw).make_formatter()
    text = fmt.join(t)

    def emit(self, tree):
        for row, ch in tree.items():
            if ch:
                with self.block(row):
                    yield from emit(self, ch)
            else:
                yield row

    def run(self, device):
        yield from emit(self, u)
    safe = bool(case.get("pipeline_safe"))
    everything = "~ %global\n" if safe else ""
    gen = type("VGen", (PartialGenerator,), {"run": run, "acl": lambda self, device: everything,
                                             "acl_safe": lambda self, device: everything})(_t.SimpleNamespace(flush_perf=lambda: {}))
    split = safe and bool(case.get("pipeline_split"))
    gens = [gen]
    u_safe = u
    if split:
        rows = list(u.items())
        u1, u_safe = odict(rows[1::2]), odict(rows[0::2])
        g_unsafe = type("VGenUnsafe", (PartialGenerator,), {"run": lambda self, device: emit(self, u1), "acl": lambda self, device: everything,
                                                            "acl_safe": lambda self, device: ""})(_t.SimpleNamespace(flush_perf=lambda: {}))
        g_safe = type("VGenSafe", (PartialGenerator,), {"run": lambda self, device: emit(self, u_safe), "acl": lambda self, device: everything,
                                                        "acl_safe": lambda self, device: everything})(_t.SimpleNamespace(flush_perf=lambda: {}))
        gens = [g_unsafe, g_safe]

    class Args:
        no_acl = not safe; no_acl_exclusive = split; acl_safe = safe; profile = False; fail_on_empty_config = False
        generators_context = None; filter_acl = None; filter_ifaces = None; filter_peers = None; filter_policies = None
        required_packages_check = False
    dg = G.DeviceGenerators(partial={dev: gens}, ref={dev: []}, entire={dev: []}, json_fragment={dev: []})
    ctx = G.OldNewDeviceContext(config="running", args=Args(), downloaded_files={}, failed_files={}, running={dev: text}, failed_running={},
                                no_new=False, stdin={"filter_acl": None, "config": None}, add_annotations=False, add_implicit=True,
                                do_files_download=False, gens=dg, fetched_packages={}, failed_packages={}, device_count=1,
                                do_print_perf=False)
    with mock.patch("annet.generators.run_partial_initial") as rpi:
        rpi.return_value = mock.Mock(config_tree=lambda: odict(), perf_mesures=lambda: {})
        res = G._old_new_per_device(ctx, dev, mock.Mock())
    if res.err:
        raise Violation("pipeline-error", f"{model}: _old_new_per_device failed: {res.err!r}", {"model": model, "t": case["t"], "u": case["u"]})
    pairs = [("old", res.old, t), ("new", res.new, u)]
    if safe:
        pairs += [("safe old", res.safe_old, t), ("safe new", res.safe_new, u_safe)]
        labels.append("pipeline-acl-safe")
        if split and len(u) >= 2:
            labels.append("pipeline-safe-output-smaller")
    for name, got, src in pairs:
        exp = ref_complete(src, rules, [], [])
        if _unordered(got) != _unordered(exp):
            raise Violation("pipeline-completion-differs", f"{model}: {name} built by the gen step is {RL.plain(got)!r}; completing "
                            f"{RL.plain(src)!r} with the device's defaults gives {RL.plain(exp)!r}"[:900],
                            {"model": model, "t": case["t"], "u": case["u"], "side": name})
    labels.append("pipeline")
    if not t:
        labels.append("pipeline-empty-device-config")


def _unordered(t):
    return {k: _unordered(v) for k, v in t.items()}


def check(case):
    from annet import implicit
    from annet.annlib.lib import merge_dicts
    from annet.api import _diff_and_patch
    from vf.model import sut
    model, tags = FAMILIES[case["family"]]
    dev = _device(model, tags)
    rules = implicit.compile_rules(dev)
    ref_rules = _ref_rules(dev)
    labels = ["family:%s%s" % (model, "+" + tags[0] if tags else "")]
    if _canon_rules(rules) != _canon_rules(ref_rules):
        raise Violation("compiled-rules-differ-from-table", f"{model} tags={tags}: implicit.compile_rules does not carry the vendor table as "
                        f"written (a rule is missing, added or changed)", {"model": model, "tags": tags})
    # the defaults are those of THIS device (model and tags), whatever devices the process has served before
    if _canon_rules(rules) != _baseline()[str(case["family"])]:
        raise Violation("rules-depend-on-history", f"{model} tags={tags}: the implicit rules compiled now differ from those compiled for the "
                        f"same device in a fresh process", {"model": model, "tags": tags})
    if case.get("pipeline"):
        _pipeline(case, dev, ref_rules, labels)
    res = {}
    for name in ("t", "u"):
        t = RL.to_odict(case[name])
        m = merge_dicts(t, implicit.config(t, rules))
        added, supp = [], []
        exp = ref_complete(t, ref_rules, added, supp)
        det = {"model": model, "tree": case[name], "completed": RL.plain(m), "expected": RL.plain(exp),
               "added_block_without_children": False}
        if not _is_subtree(t, m):
            raise Violation("explicit-lost", f"{model}: an explicit line is missing (or reordered) after completion", det)
        if _seq(m) != _seq(exp):
            # diagnosis for triage: a default BLOCK that was added without its own default children
            for p in added:
                node = exp
                for k in p:
                    node = node[k]
                got = m
                for k in p:
                    got = got.get(k) if got is not None else None
                if node and got is not None and not got:
                    det["added_block_without_children"] = True
            raise Violation("completion-differs", f"{model}: completion {RL.plain(m)!r} differs from the model {RL.plain(exp)!r}"[:700], det)
        m2 = merge_dicts(m, implicit.config(m, rules))
        if _seq(m2) != _seq(m):
            raise Violation("not-idempotent", f"{model}: completing a completed configuration adds {RL.plain(m2)!r} vs {RL.plain(m)!r}"[:700], det)
        if any(len(p) >= 2 for p in added):
            labels.append("default-added-nested")
        if added:
            labels.append("default-added")
        if supp:
            labels.append("default-suppressed")
        res[name] = (m, set(added))
    # patch level: defaults implied on both sides produce nothing
    (mt, at), (mu, au) = res["t"], res["u"]
    both = at & au
    if both:
        labels.append("implied-on-both-sides")
        try:
            d, pt = _diff_and_patch(sut.Dev(dev.hw), mt, mu, None, None, False)
        except Exception:
            return labels + ["patch-raises"]
        fmt = sut.registry().match(dev.hw).make_formatter(indent="")
        rev = sut.registry().match(dev.hw).reverse
        paths = list(fmt.cmd_paths(pt).keys())

        def without(tree, path=()):
            return odict((k, without(v, path + (k,))) for k, v in tree.items() if path + (k,) not in both)
        # metamorphic: the same two configurations without the lines implied on both sides; a command addressing such a default
        # that exists only when the defaults are present was caused by the default alone
        # (e.g. 'no shutdown' may legitimately appear as the removal of an explicit 'shutdown')
        try:
            _, pt0 = _diff_and_patch(sut.Dev(dev.hw), without(mt), without(mu), None, None, False)
            paths0 = list(fmt.cmd_paths(pt0).keys())
        except Exception:
            paths0 = None
        for p in paths:
            for b in both:
                if len(p) == len(b) and p[:-1] == b[:-1] and p[-1] in (b[-1], rev + " " + b[-1]):
                    if paths0 is not None and p not in paths0:
                        raise Violation("default-causes-command", f"{model}: default {b!r}, absent from both configs and implied on both sides, "
                                        f"produces the command {p!r}", {"model": model, "t": case["t"], "u": case["u"], "paths": paths})

        def walk(diff, path=()):
            for op, row, ch, _ in diff:
                if path + (row,) in both and str(op) in ("added", "removed", "moved"):
                    raise Violation("default-in-diff", f"{model}: default {path + (row,)!r} implied on both sides appears in the diff as {op}",
                                    {"model": model, "t": case["t"], "u": case["u"]})
                walk(ch, path + (row,))
        walk(d)
        if paths:
            labels.append("patch-nonempty")
    return labels


def nontrivial(labels):
    return "default-added-nested" in labels and "default-suppressed" in labels
