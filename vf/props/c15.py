"""C15 - mesh sessions are mirrored on both ends; handler data merges without loss."""
import itertools
import re

from hypothesis import strategies as st

from vf.core.runner import Violation
from vf.model.rnd import urandoms

PID = "C15"
LEVEL = "exploration"
BUDGET = {"quick": 2500, "thorough": 100000}
RULE = ("Two case kinds. 'mesh': Hypothesis draws a topology (2..5 devices named <role><n>.dc with roles sp/tor/bb, 0..3 parallel links per "
        "pair of different roles) and 1..4 handler specs - data tables interpreted by one closure: kind direct/indirect, name templates "
        "{n} / {n:regex} in either role order, an optional Left/Right filter (including type-mismatching ones), united/separate ports, "
        "address plane (vrf), AS-number offset, families, bfd, send_community, left-only mtu/description, interface mode "
        "port/LAG/sub-interface/SVI. MeshExecutor.execute_for runs for every device on fresh fake devices. Oracle: an independent "
        "reference (own template matcher, filter evaluation, merge semantics) gives the expected peers per device or 'conflict'; results "
        "must equal it, every session must be mirrored on both ends (addr, remote_as == the other end's local_as, families, session "
        "options, selected interface), and for every permutation of handler registration (<=24) the result is equal or ValueError in all. "
        "'merge': random instances of the mesh models; merge(a,b) per declared merger (default/ForbidChange equal-or-error, Unite union, "
        "Concat concatenation, Merge/DictMerge recursive, unset never overrides set, associative when defined). "
        "Non-trivial: >=2 handlers match one pair, or a rule matches in reverse orientation.")
ASSUMPTIONS = [
    "handlers are pure functions of (left name, right name, port set) and always set both peer addresses and AS numbers (the converter "
    "reads connected.addr and connected.asnum unconditionally)",
    "fake Storage/Device with deterministic neighbour order; LAG/SVI numbers are derived from the pair so that interface names are unique",
]
FLOORS = {"two-handlers-one-pair": 0.15, "reverse-orientation": 0.2}

ROLES = ["sp", "tor", "bb"]
MASKS = {
    "sp": ["sp{n}.dc", "sp{n:\\d+}.dc", "sp{n:1|2}.dc"],
    "tor": ["tor{n}.dc", "tor{n:[12]}.dc", "tor{n}.dc"],
    "bb": ["bb{n}.dc", "bb{n}.dc"],
}
FILTERS = [None, None, ["L", "==", 1], ["R", ">=", 2], ["L", "!=", 2], ["R", "==", "1"], ["L", "<", 3]]


# ------------------------------------------------------------------ reference model
def tmpl_match(mask, host):
    """own matcher for name templates: {x} -> digits (int), {x:re} -> regex (str); whole-name match"""
    out, pos, rx = {}, 0, ""
    types = {}
    for m in re.finditer(r"\{(\w+)(?::([^}]*))?\}", mask):
        rx += re.escape(mask[pos:m.start()])
        name, custom = m.group(1), m.group(2)
        rx += "(?P<%s>%s)" % (name, custom if custom is not None else r"\d+")
        types[name] = str if custom is not None else int
        pos = m.end()
    rx += re.escape(mask[pos:])
    mm = re.fullmatch(rx, host)
    if not mm:
        return None
    return {k: types[k](v) for k, v in mm.groupdict().items()}


def flt_ok(flt, largs, rargs):
    if flt is None:
        return True
    side, op, val = flt
    try:
        x = (largs if side == "L" else rargs)["n"]
        return {"==": x == val, "!=": x != val, ">=": None, "<": None}[op] if op in ("==", "!=") else (x >= val if op == ">=" else x < val)
    except (TypeError, KeyError):
        return False


def num(name):
    return int(re.search(r"\d+", name).group(0))


def h(*xs):
    return sum((i + 1) * ord(c) for x in xs for i, c in enumerate(str(x))) % 200 + 1


def fields(spec, left, right, lports, rports):
    """what the handler table assigns, as (left_fields, right_fields, session_fields)"""
    a, b = sorted([left, right])
    pa = lports if left == a else rports
    k = h(a, b, *sorted(pa)) if spec["kind"] == "direct" else h(a, b)
    plane = spec["plane"]
    addr = {a: "10.%d.0.0/31" % k, b: "10.%d.0.1/31" % k}   # the same addresses in every VRF: sessions differ by vrf only
    lf = {"addr": addr[left], "asnum": 65000 + num(left) + (100 if left.startswith("tor") else 0) + spec["asn_off"]}
    rf = {"addr": addr[right], "asnum": 65000 + num(right) + (100 if right.startswith("tor") else 0) + spec["asn_off"]}
    sf = {}
    if plane:
        sf["vrf"] = "v%d" % plane
    if spec["families"]:
        sf["families"] = set(spec["families"])
    if spec["bfd"] is not None:
        sf["bfd"] = spec["bfd"]
    if spec["send_community"] is not None:
        sf["send_community"] = spec["send_community"]
    if spec["mtu_left"]:
        lf["mtu"] = spec["mtu_left"]
    if spec["descr"]:
        lf["description"] = spec["descr"]
    mode = spec["iface"]
    if spec["kind"] == "direct":
        if mode == "lag":
            lf["lag"] = rf["lag"] = k
        elif mode == "svi":
            lf["svi"] = rf["svi"] = 1000 + k
        elif mode == "subif":
            lf["subif"] = rf["subif"] = 100 + plane
    else:
        if mode == "svi":
            lf["svi"] = rf["svi"] = 2000 + k
    return lf, rf, sf


class Conflict(Exception):
    pass


def merge_fields(a, b, what):
    out = dict(a)
    for kf, v in b.items():
        if kf not in out:
            out[kf] = v
        elif kf == "families":
            out[kf] = out[kf] | v
        elif out[kf] != v:
            raise Conflict("%s: field %s: %r vs %r" % (what, kf, out[kf], v))
    return out


def ref_device(topo, specs, dev, facts=None):
    """expected peers of `dev`: dict key -> info, or raises Conflict; also facts for the labels"""
    names, links = topo["names"], topo["links"]
    facts = set() if facts is None else facts
    peers = {}
    order = []

    def conns(a, b):
        return [(pa, pb) for (x, pa, y, pb) in links if x == a and y == b] + [(pb, pa) for (x, pa, y, pb) in links if x == b and y == a]

    def neighbours(a):
        out = []
        for (x, pa, y, pb) in sorted(links, key=lambda l: (l[1] if l[0] == a else l[3])):
            o = y if x == a else (x if y == a else None)
            if o and o not in out:
                out.append(o)
        return out

    def add(other, local, connected, session, ports, spec_i, kind):
        loc = merge_fields(local, session, "session vs peer data")
        con = merge_fields(connected, session, "session vs peer data")
        key = (other, con["addr"], con.get("vrf", ""))
        if key in peers:
            facts.add("two-handlers-one-pair")
            p = peers[key]
            if p["ports"] != ports:
                raise Conflict("ports differ")
            p["local"] = merge_fields(p["local"], loc, "pair")
            p["connected"] = merge_fields(p["connected"], con, "pair")
            p["specs"].append(spec_i)
        else:
            peers[key] = {"local": loc, "connected": con, "ports": ports, "other": other, "specs": [spec_i], "kind": kind}
            order.append(key)

    # direct
    for other in neighbours(dev):
        for i, s in enumerate(specs):
            if s["kind"] != "direct":
                continue
            for orient in (True, False):
                left, right = (dev, other) if orient else (other, dev)
                la, ra = tmpl_match(s["lmask"], left), tmpl_match(s["rmask"], right)
                if la is None or ra is None or not flt_ok(s["filter"], la, ra):
                    continue
                if not orient:
                    facts.add("reverse-orientation")
                allp = conns(dev, other)
                groups = [allp] if s["ports"] == "united" else [[p] for p in allp]
                for g in groups:
                    mine, theirs = [p[0] for p in g], [p[1] for p in g]
                    lports, rports = (mine, theirs) if orient else (theirs, mine)
                    lf, rf, sf = fields(s, left, right, lports, rports)
                    local, connected = (lf, rf) if orient else (rf, lf)
                    add(other, local, connected, sf, mine, i, "direct")
    dkeys = list(order)
    # interface selection for direct peers
    for key in dkeys:
        p = peers[key]
        loc = p["local"]
        if "lag" in loc and "svi" in loc:
            raise Conflict("lag+svi")
        if "svi" in loc and "subif" in loc:
            raise Conflict("svi+subif")
        if len(p["ports"]) > 1 and "lag" not in loc and "svi" not in loc:
            raise Conflict("multiple connections, no lag/svi")
        if "lag" in loc:
            name = "Trunk%d" % loc["lag"]
            if "subif" in loc:
                name += ".%d" % loc["subif"]
        elif "subif" in loc:
            name = "%s.%d" % (p["ports"][0], loc["subif"])
        elif "svi" in loc:
            name = "Vlan%d" % loc["svi"]
        else:
            name = p["ports"][0]
        p["interface"] = name
    # indirect
    ind = {}
    iorder = []
    for other in names:
        for i, s in enumerate(specs):
            if s["kind"] != "indirect":
                continue
            for orient in (True, False):
                left, right = (dev, other) if orient else (other, dev)
                la, ra = tmpl_match(s["lmask"], left), tmpl_match(s["rmask"], right)
                if la is None or ra is None or not flt_ok(s["filter"], la, ra):
                    continue
                if not orient:
                    facts.add("reverse-orientation")
                lf, rf, sf = fields(s, left, right, [], [])
                local, connected = (lf, rf) if orient else (rf, lf)
                loc = merge_fields(local, sf, "session vs peer data")
                con = merge_fields(connected, sf, "session vs peer data")
                key = (other, con["addr"], con.get("vrf", ""))
                if key in ind:
                    facts.add("two-handlers-one-pair")
                    ind[key]["local"] = merge_fields(ind[key]["local"], loc, "pair")
                    ind[key]["connected"] = merge_fields(ind[key]["connected"], con, "pair")
                else:
                    ind[key] = {"local": loc, "connected": con, "other": other, "kind": "indirect", "ports": []}
                    iorder.append(key)
    for key in iorder:
        p = ind[key]
        loc = p["local"]
        if "svi" in loc and "subif" in loc:
            raise Conflict("svi+subif")
        p["interface"] = ("Vlan%d" % loc["svi"]) if "svi" in loc else None
    res = [peers[k] for k in dkeys] + [ind[k] for k in iorder]
    return res, facts


def expected_peer(p):
    loc, con = p["local"], p["connected"]
    return {
        "hostname": p["other"], "addr": con["addr"].split("/")[0], "remote_as": con["asnum"], "local_as": loc["asnum"],
        "families": sorted(con.get("families", [])), "vrf": con.get("vrf", ""), "bfd": loc.get("bfd"), "send_community": loc.get("send_community"),
        "mtu": loc.get("mtu"), "description": con.get("description", ""), "interface": p["interface"],
    }


def got_peer(p):
    return {
        "hostname": p.hostname, "addr": p.addr, "remote_as": int(p.remote_as), "local_as": int(p.options.local_as) if p.options.local_as is not None else None,
        "families": sorted(p.families), "vrf": p.vrf_name, "bfd": p.options.bfd, "send_community": p.options.send_community,
        "mtu": p.options.mtu, "description": p.description, "interface": p.interface,
    }


# ------------------------------------------------------------------ fakes
class FI:
    def __init__(self, name, nf=None, np_=None):
        self._name, self.addrs, self.neighbor_fqdn, self.neighbor_port = name, [], nf, np_

    @property
    def name(self):
        return self._name

    def add_addr(self, a, vrf):
        self.addrs.append((a, vrf))


class FD:
    hw = None
    breed = None

    def __init__(self, name, ifs):
        self._n, self.interfaces, self.storage = name, ifs, None

    id = property(lambda s: s._n)
    fqdn = property(lambda s: s._n)
    hostname = property(lambda s: s._n)

    def __hash__(self):
        return hash(self._n)

    def is_pc(self):
        return False

    @property
    def neighbours_fqdns(self):
        out = []
        for i in self.interfaces:
            if i.neighbor_fqdn and i.neighbor_fqdn not in out:
                out.append(i.neighbor_fqdn)
        return out

    neighbours_ids = neighbours_fqdns

    def make_lag(self, lag, ports, lag_min_links):
        self.interfaces.append(FI("Trunk%d" % lag))
        return self.interfaces[-1]

    def add_svi(self, svi):
        self.interfaces.append(FI("Vlan%d" % svi))
        return self.interfaces[-1]

    def add_subif(self, i, sub):
        self.interfaces.append(FI("%s.%d" % (i, sub)))
        return self.interfaces[-1]

    def find_interface(self, name):
        return next((i for i in self.interfaces if i.name == name), None)


class FS:
    def __init__(self, devices):
        self.devices = devices

    def resolve_all_fdnds(self):
        return [d.fqdn for d in self.devices]

    def make_devices(self, query, **kw):
        return [d for d in self.devices if d.fqdn in query]

    def search_connections(self, device, neighbor):
        res = []
        for lp in device.interfaces:
            if lp.neighbor_fqdn == neighbor.fqdn:
                for rp in neighbor.interfaces:
                    if rp.name == lp.neighbor_port and rp.neighbor_fqdn == device.fqdn:
                        res.append((lp, rp))
        return res


def build_storage(topo):
    devs = {n: FD(n, [FI("lo0")]) for n in topo["names"]}
    for (a, pa, b, pb) in topo["links"]:
        devs[a].interfaces.append(FI(pa, b, pb))
        devs[b].interfaces.append(FI(pb, a, pa))
    for d in devs.values():
        d.interfaces.sort(key=lambda i: i.name)
    return devs, FS([devs[n] for n in topo["names"]])


def make_registry(specs, order):
    from annet.mesh import Left, MeshRulesRegistry, Right, separate_ports, united_ports
    reg = MeshRulesRegistry()
    handlers = {}
    for i in order:
        s = specs[i]
        root = s.get("same_handler", i)
        if root in handlers:
            handler = handlers[root]
        else:
            handler = handlers[root] = _mk_handler(specs[root], root)
        flt = ()
        if s["filter"]:
            side, op, val = s["filter"]
            e = (Left if side == "L" else Right).n
            flt = ({"==": e == val, "!=": e != val, ">=": e >= val, "<": e < val}[op],)
        if s["kind"] == "direct":
            reg.direct(s["lmask"], s["rmask"], *flt, port_processor=(united_ports if s["ports"] == "united" else separate_ports))(handler)
        else:
            reg.indirect(s["lmask"], s["rmask"], *flt)(handler)
    return reg


def _mk_handler(s, i):
    if True:
        shared_families = set(s["families"])   # a rule-file constant: the SAME set object is assigned by every call of this handler

        def handler(l, r, sess, s=s, shared_families=shared_families):
            lf, rf, sf = fields(s, l.device.fqdn, r.device.fqdn, list(getattr(l, "ports", [])), list(getattr(r, "ports", [])))
            if "families" in sf:
                sf["families"] = shared_families
            for kf, v in lf.items():
                setattr(l, kf, v)
            for kf, v in rf.items():
                setattr(r, kf, v)
            for kf, v in sf.items():
                setattr(sess, kf, v)
        handler.__qualname__ = "h%d" % i
        return handler


# ------------------------------------------------------------------ strategies
def _gen_mesh(rnd):
    names = []
    roles = rnd.sample(ROLES, rnd.randint(2, 3))
    for r in roles:
        for i in range(1, rnd.randint(1, 2) + 1):
            names.append("%s%d.dc" % (r, i))
    names = names[:5]
    links = []
    cnt = {n: 0 for n in names}
    for a, b in itertools.combinations(names, 2):
        if a[:2] == b[:2]:
            continue
        for _ in range(rnd.choice([0, 1, 1, 2, 3])):
            cnt[a] += 1
            cnt[b] += 1
            links.append([a, "e%d" % cnt[a], b, "e%d" % cnt[b]])
    specs = []
    for _ in range(rnd.randint(1, 4)):
        lr, rr = rnd.sample([r for r in roles], 2)
        if specs and rnd.chance(65):
            # several handlers for the same pair of roles (either orientation): their data must merge
            prev = specs[0]
            lr, rr = [r for r in ROLES if prev["lmask"].startswith(r) or prev["lmask"].startswith("{")][0], \
                     [r for r in ROLES if prev["rmask"].startswith(r)][0]
            if rnd.chance(40):
                lr, rr = rr, lr
        kind = "direct" if rnd.chance(75) else "indirect"
        if specs and rnd.chance(50):
            kind = specs[0]["kind"]
        if kind == "indirect" and rnd.chance(35):
            rr = lr   # a rule between devices of one tier: both templates match both devices, so it applies in both orientations
        specs.append({
            "kind": kind, "lmask": rnd.choice(MASKS[lr]), "rmask": rnd.choice(MASKS[rr]), "filter": rnd.choice(FILTERS),
            "ports": rnd.choice(["united", "united", "separate"]), "plane": 1 if rnd.chance(15) else 0,
            "asn_off": 7 if rnd.chance(6) else 0, "families": rnd.choice([[], ["ipv4_unicast"], ["ipv6_unicast"], ["ipv4_unicast", "ipv6_unicast"]]),
            "bfd": rnd.choice([None, None, True, False]), "send_community": rnd.choice([None, None, True]),
            "mtu_left": rnd.choice([None, None, 9000]), "descr": rnd.choice([None, None, "d1", "d2"]),
            "iface": rnd.choice(["port", "port", "lag", "lag", "subif", "svi"]) if kind == "direct" else rnd.choice(["none", "none", "svi"]),
        })
    if rnd.chance(30):
        # stacked decorators: ONE handler function registered under a second rule (other templates / filter, same kind)
        j = rnd.randint(0, len(specs) - 1)
        o = specs[j]
        others = [r for r in roles if not o["rmask"].startswith(r)] or roles
        specs.append(dict(o, rmask=rnd.choice(MASKS[rnd.choice(others)]), filter=rnd.choice(FILTERS), same_handler=j))
    return {"kind": "mesh", "names": names, "links": links, "specs": specs}


def _gen_merge(rnd):
    def inst():
        d = {}
        for f, vals in (("addr", ["10.0.0.1/31", "10.0.0.3/31"]), ("asnum", [65001, 65002]), ("families", [["ipv4_unicast"], ["ipv6_unicast"], []]),
                        ("bfd", [True, False]), ("mtu", [1500, 9000]), ("description", ["a", "b"]), ("vrf", ["v1"])):
            if rnd.chance(50):
                d[f] = rnd.choice(vals)
        return d
    return {"kind": "merge", "a": inst(), "b": inst(), "c": inst(), "concat": [rnd.choice([None, ["x"], ["y", "z"]]) for _ in range(3)],
            "dict": [rnd.choice([None, {"k": 1}, {"k": 1, "m": 2}, {"k": 3}]) for _ in range(3)]}


def _gen_from(rnd):
    return _gen_mesh(rnd) if rnd.chance(85) else _gen_merge(rnd)


@st.composite
def _cases(draw):
    return _gen_from(draw(urandoms()))


def fuzz_decode(fdp):
    """coverage-guided tier: the same generator driven by fuzzer-chosen bytes (vf/core/fuzz_target.py)"""
    from vf.model.rnd import FdpRandom
    return _gen_from(FdpRandom(fdp))

def strategy(tier):
    return _cases()


# ------------------------------------------------------------------ checks
def _run_all(topo, specs, order):
    """-> {dev: [peer dicts]} or ('ValueError', msg)"""
    from annet.mesh import MeshExecutor
    out = {}
    for name in topo["names"]:
        devs, sto = build_storage(topo)          # fresh fake devices for every execution (execute_for adds interfaces)
        try:
            cfg = MeshExecutor(make_registry(specs, order), sto).execute_for(devs[name])
        except ValueError as e:
            out[name] = ("ValueError", str(e)[:160])
            continue
        except Exception as e:   # anything but the documented conflict error is a failure of the code under test
            raise Violation("unexpected-exception", f"execute_for({name}) raised {type(e).__name__}: {e}"[:400],
                            {"specs": specs, "links": topo["links"], "exc": type(e).__name__})
        out[name] = [got_peer(p) for p in cfg.peers]
    return out


def _norm(v):
    return ("ValueError",) if isinstance(v, tuple) else sorted(v, key=lambda p: (p["hostname"], p["addr"], p["vrf"]))


def _mesh(case):
    topo = {"names": case["names"], "links": [tuple(l) for l in case["links"]]}
    specs = case["specs"]
    labels = ["mesh"]
    n = len(specs)
    base = _run_all(topo, specs, list(range(n)))
    det = {"specs": specs, "links": case["links"], "result": {k: (v if isinstance(v, tuple) else v) for k, v in base.items()}}
    exp = {}
    for dev in topo["names"]:
        facts = set()
        try:
            peers, _ = ref_device(topo, specs, dev, facts)
            exp[dev] = [expected_peer(p) for p in peers]
        except Conflict as c:
            exp[dev] = ("ValueError", str(c))
            labels.append("conflict-expected")
        labels += sorted(facts)
    det["expected"] = exp
    for dev in topo["names"]:
        if _norm(base[dev]) != _norm(exp[dev]):
            raise Violation("peers-differ", f"device {dev}: execute_for gives {base[dev]!r}, the reference expects {exp[dev]!r}"[:900], det)
    # mirrored sessions, checked on the implementation's own results
    for a in topo["names"]:
        if isinstance(base[a], tuple):
            continue
        for p in base[a]:
            b = p["hostname"]
            if isinstance(base.get(b), tuple) or b not in base or b == a:   # (a same-tier rule also matches a device with itself: no second end)
                continue
            mirror = [q for q in base[b] if q["hostname"] == a and q["vrf"] == p["vrf"] and q["remote_as"] == p["local_as"]
                      and q["local_as"] == p["remote_as"] and q["families"] == p["families"] and q["bfd"] == p["bfd"]
                      and q["send_community"] == p["send_community"] and q["addr"].rsplit(".", 1)[0] == p["addr"].rsplit(".", 1)[0]
                      and q["addr"] != p["addr"]]
            if not mirror:
                raise Violation("not-mirrored", f"{a} has a session to {b} ({p!r}) but {b} has no matching session back: {base[b]!r}"[:900], det)
            labels.append("mirrored-session")
    # one executor serving all devices of the topology one after another (both directions of the device list): what a device gets
    # does not depend on which devices the executor served before
    from annet.mesh import MeshExecutor
    for names in (list(topo["names"]), list(reversed(topo["names"]))):
        devs, sto = build_storage(topo)
        ex = MeshExecutor(make_registry(specs, list(range(n))), sto)
        for name in names:
            try:
                got = [got_peer(p) for p in ex.execute_for(devs[name]).peers]
            except ValueError as e:
                got = ("ValueError", str(e)[:160])
            except Exception as e:
                raise Violation("unexpected-exception", f"execute_for({name}) on a reused executor raised {type(e).__name__}: {e}"[:400],
                                {"specs": specs, "links": topo["links"], "exc": type(e).__name__})
            if _norm(got) != _norm(base[name]):
                raise Violation("depends-on-devices-served-before", f"device {name}: an executor that served {names[:names.index(name)]!r} before "
                                f"gives {got!r}, a new executor {base[name]!r}"[:900], det)
    if len(topo["names"]) >= 3:
        labels.append("reused-executor-3+devices")
    # registration order
    perms = list(itertools.permutations(range(n)))[:24]
    for perm in perms[1:]:
        other = _run_all(topo, specs, list(perm))
        for dev in topo["names"]:
            if _norm(other[dev]) != _norm(base[dev]):
                raise Violation("depends-on-registration-order", f"device {dev}: order {perm} gives {other[dev]!r}, order {tuple(range(n))} gives "
                                f"{base[dev]!r}"[:900], det)
    labels.append("n:orders:%d" % len(perms))
    return labels


def _merge_case(case):
    from annet.mesh.basemodel import BaseMeshModel, Concat, DictMerge, Merge, MergeForbiddenError, Special, Unite, merge
    from annet.mesh.peer_models import DirectPeerDTO
    from typing import Annotated
    labels = ["merge"]

    def mk(d):
        o = DirectPeerDTO()
        for k, v in d.items():
            setattr(o, k, set(v) if k == "families" else v)
        return o

    def ref(x, y):
        out = dict(x)
        for k, v in y.items():
            if k not in out:
                out[k] = v
            elif k == "families":
                out[k] = sorted(set(out[k]) | set(v))
            elif out[k] != v:
                raise Conflict(k)
        return out

    def run(x, y):
        try:
            m = merge(mk(x), mk(y))
            return {k: (sorted(v) if k == "families" else v) for k, v in vars(m).items()}
        except MergeForbiddenError:
            return "forbidden"

    def refrun(x, y):
        try:
            r = ref(x, y)
            return {k: (sorted(v) if k == "families" else v) for k, v in r.items()}
        except Conflict:
            return "forbidden"
    a, b, c = case["a"], case["b"], case["c"]
    for x, y in ((a, b), (b, a), (a, c), (a, a), (a, {})):
        if run(x, y) != refrun(x, y):
            raise Violation("merge-law", f"merge({x!r}, {y!r}) = {run(x, y)!r}, the declared mergers give {refrun(x, y)!r}", {"a": x, "b": y})
    ab, bc = run(a, b), run(b, c)
    if ab != "forbidden" and bc != "forbidden":
        l, r = run(ab, c), run(a, bc)
        if l != r:
            raise Violation("merge-not-associative", f"merge(merge(a,b),c)={l!r} vs merge(a,merge(b,c))={r!r}", {"a": a, "b": b, "c": c})
        labels.append("associativity-checked")

    class M(BaseMeshModel):
        items: Annotated[list, Concat()]
        tags: Annotated[set, Unite()]
        table: Annotated[dict, DictMerge()]
        inner: Annotated[DirectPeerDTO, Merge()]
        plain: int
    objs = []
    for i in range(3):
        o = M()
        if case["concat"][i] is not None:
            o.items = list(case["concat"][i])
            o.tags = set(case["concat"][i])
        if case["dict"][i] is not None:
            o.table = dict(case["dict"][i])
        if i < 2:
            o.inner = mk([a, b][i])
        objs.append(o)
    x, y = objs[0], objs[1]
    try:
        m = merge(x, y)
        got = {k: v for k, v in vars(m).items()}
    except MergeForbiddenError:
        got = "forbidden"
    expd = {}
    forb = False
    if case["concat"][0] is not None or case["concat"][1] is not None:
        expd["items"] = (case["concat"][0] or []) + (case["concat"][1] or [])
        expd["tags"] = set(case["concat"][0] or []) | set(case["concat"][1] or [])
    d0, d1 = case["dict"][0], case["dict"][1]
    if d0 is not None or d1 is not None:
        t = dict(d0 or {})
        for k, v in (d1 or {}).items():
            if k in t and d0 is not None and d1 is not None:
                forb = True           # DictMerge's default value merger forbids any override
            t[k] = v
        expd["table"] = t
    if refrun(a, b) == "forbidden":
        forb = True
    if forb:
        if got != "forbidden":
            raise Violation("merge-law", f"a conflicting merge was accepted: {got!r}", {"case": case})
    else:
        if got == "forbidden":
            raise Violation("merge-law", "a conflict-free merge was refused", {"case": case})
        for k, v in expd.items():
            if got.get(k) != v:
                raise Violation("merge-law", f"field {k}: merged {got.get(k)!r}, expected {v!r}", {"case": case})
        inner = {k: (sorted(v) if k == "families" else v) for k, v in vars(got["inner"]).items()}
        if inner != refrun(a, b):
            raise Violation("merge-law", f"nested model merged to {inner!r}, expected {refrun(a, b)!r}", {"case": case})
    return labels


def enumerate_cases(tier, shard, nshards):
    """every shipped mesh data model: a field DECLARED (anywhere in its annotation, e.g. inside Optional[...]) as a concatenated list
    or a united set must be combined that way when two handlers set it"""
    if shard == 0:
        yield {"enum": True, "kind": "declared-mergers"}


def _find_merger(hint):
    """the Merger instance written in the annotation, however it is wrapped"""
    import typing
    from annet.mesh.basemodel import Merger
    for m in getattr(hint, "__metadata__", ()):
        if isinstance(m, Merger):
            return m
    for a in typing.get_args(hint):
        if a is type(None) or not hasattr(a, "__class__"):
            continue
        try:
            got = _find_merger(a)
        except Exception:
            got = None
        if got is not None and (typing.get_origin(hint) is typing.Union or getattr(hint, "__metadata__", None) is not None):
            return got
    return None


def _plain_elems(hint):
    """the annotated container holds plain words (tuple[str, ...], set[<literal names>]) - a value can be written down here"""
    import typing
    o = typing.get_origin(hint)
    if o is tuple:
        return typing.get_args(hint)[:1] == (str,)
    if o in (set, frozenset):
        return True
    return any(_plain_elems(a) for a in typing.get_args(hint) if a is not type(None) and typing.get_origin(a) is not None)


def _declared_mergers(case):
    import inspect
    import typing
    import annet.mesh.device_models as DM
    import annet.mesh.peer_models as PM
    from annet.mesh.basemodel import BaseMeshModel, Concat, Unite, merge
    labels = ["declared-mergers"]
    n = 0
    for mod in (DM, PM):
        for cname, cls in inspect.getmembers(mod, inspect.isclass):
            if not (issubclass(cls, BaseMeshModel) and cls is not BaseMeshModel and cls.__module__ == mod.__name__):
                continue
            hints = typing.get_type_hints(cls, include_extras=True)
            for field, hint in sorted(hints.items()):
                m = _find_merger(hint)
                if isinstance(m, Concat):
                    x, y = ("65000:1",), ("65000:2",)
                    want = x + y
                elif isinstance(m, Unite):
                    x, y = {"ipv4_unicast"}, {"ipv6_unicast"}
                    want = x | y
                else:
                    continue
                det = {"model": cname, "field": field, "declared": type(m).__name__}
                if not _plain_elems(hint):
                    labels.append("field-skipped")      # (elements are model objects: not constructed here)
                    continue
                req = {pn: "x" for pn, pp in inspect.signature(cls.__init__).parameters.items()
                       if pn != "self" and pp.default is inspect.Parameter.empty and pp.kind is inspect.Parameter.POSITIONAL_OR_KEYWORD}
                try:
                    a, b = cls(**dict(req, **{field: x})), cls(**dict(req, **{field: y}))
                except Exception as e:
                    raise Violation("declared-merger", f"{cname}.{field} (declared {type(m).__name__}()) does not accept the value {x!r}: "
                                    f"{type(e).__name__}: {e}"[:500], det)
                try:
                    got = getattr(merge(a, b), field)
                except Exception as e:
                    raise Violation("declared-merger", f"{cname}.{field} is declared {type(m).__name__}() but merging two values raises "
                                    f"{type(e).__name__}: {e}"[:500], det)
                if got != want:
                    raise Violation("declared-merger", f"{cname}.{field} is declared {type(m).__name__}(): merge({x!r}, {y!r}) gives {got!r}, "
                                    f"expected {want!r}", det)
                n += 1
    labels.append("n:declared-fields:%d" % n)
    if n < 6:
        raise RuntimeError("declared-mergers: only %d fields found - the model modules have moved?" % n)
    return labels


def check(case):
    import logging
    logging.disable(logging.CRITICAL)
    if case["kind"] == "mesh":
        return _mesh(case)
    if case["kind"] == "declared-mergers":
        return _declared_mergers(case)
    return _merge_case(case)


def nontrivial(labels):
    return "two-handlers-one-pair" in labels or "reverse-orientation" in labels or "associativity-checked" in labels
