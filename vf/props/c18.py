"""C18 - every known hardware model resolves to one vendor and a loadable rulebook."""
import itertools
import json
import os
import re

from hypothesis import strategies as st

from vf.core.runner import Violation

PID = "C18"
LEVEL = "exploration"
BUDGET = {"quick": 800, "thorough": 40000}
ENUM_EXHAUSTIVE = True
EXHAUSTIVE_NOTE = ("every sequence of devdb.json (168) x up to 3 synthesised model strings x 5 software shapes, plus every registered vendor's "
                   "canonical hardware; all 14 rotations of the vendor registration order per model. Random permutations of the registration "
                   "order (Hypothesis) are not exhaustive (14! orders).")
RULE = ("Enumerated case = (devdb sequence, synthesised model string, software version shape). The model string is synthesised from the "
        "regex chain by an own regex sampler and re-validated with re.search for every ancestor (the check exits 2 if any sequence cannot "
        "be synthesised). Oracles: the sequence is true and the true set is prefix-closed w.r.t. the known sequences; the vendor chosen by "
        "fresh Registry objects is the same for every rotation of the registration order and is the vendor whose match expression names "
        "the deepest devdb sequence; get_rulebook renders/compiles patching+ordering+deploy with every %logic/%diff_logic/%apply_logic "
        "resolved; two fresh providers give structurally equal rulebooks (regex -> (pattern, flags), function -> qualified name). "
        "Generated case = (sequence, random permutation of the 14 vendors). Non-trivial: depth>=2 sequence, or >=2 vendors' expressions match.")
ASSUMPTIONS = [
    "'most specific vendor' is read as: the vendor whose match expression denotes the deepest full devdb sequence that is true for the model",
]

SOFTS = ["", "VRP V200R001C00SPC700", "Cumulus Linux 5.4", "EOS 4.29", "SONiC x"]
_DB = None
_SYN = {}
_SHARED = None


def db():
    global _DB
    if _DB is None:
        import annet.annlib.netdev.devdb as m
        with open(os.path.join(os.path.dirname(m.__file__), "data", "devdb.json")) as f:
            _DB = json.load(f)
    return _DB


def synth(seq):
    from vf.model.regexsample import samples
    if seq in _SYN:
        return _SYN[seq]
    d = db()
    parts = seq.split(".")
    chain = [".".join(parts[:i + 1]) for i in range(len(parts))]
    per = [samples(d[c]) for c in chain]
    out = []
    if all(per):
        anchored = [d[c].startswith("^") for c in chain]
        idx = sorted(range(len(chain)), key=lambda i: (not anchored[i], -i if anchored[i] else i))
        # (a) minimal models: as few of the chain's words as still satisfy every regex of the chain ("NVIDIA SN5400" rather than a string
        #     that also carries the first alternative of every ancestor regex, which would make sibling families true as well)
        minimal = []
        for combo in itertools.islice(itertools.product(*[p[:4] for p in per]), 60):
            n = len(combo)
            subsets = sorted((m for m in range(1, 2 ** n)), key=lambda m: (sum(len(combo[i]) for i in range(n) if m >> i & 1), m))
            for m in subsets:
                words = [combo[i] for i in range(n) if m >> i & 1]
                hit = None
                for cand in ("".join(words), " ".join(w.strip() for w in words)):
                    if all(re.search(d[c], cand) for c in chain):
                        hit = cand
                        break
                if hit is not None:
                    if hit not in minimal:
                        minimal.append(hit)
                    break
            if len(minimal) >= 2:
                break
        # (b) full models: every regex of the chain contributes its sample
        full = []
        for combo in itertools.islice(itertools.product(*[p[:4] for p in per]), 400):
            for cand in ("".join(combo), "".join(combo[i] for i in idx), " ".join(combo)):
                if all(re.search(d[c], cand) for c in chain) and cand not in full:
                    full.append(cand)
            if len(full) >= 3:
                break
        for cand in minimal[:2] + full:
            if cand not in out:
                out.append(cand)
    _SYN[seq] = out[:4]
    return _SYN[seq]


_COMBOS = None


def combos():
    """model strings that belong to TWO families of one vendor at once (a Quidway switch of the -EI line: 'Huawei S5700-EI'): the
    minimal model of sequence A followed by the sample of B's own (last) regex, kept when every regex of both chains matches"""
    global _COMBOS
    if _COMBOS is not None:
        return _COMBOS
    from vf.model.regexsample import samples
    d = db()
    out = []
    seqs = list(d)
    for a in seqs:
        pa = a.split(".")
        if len(pa) < 2 or not synth(a):
            continue
        for b in seqs:
            pb = b.split(".")
            if len(pb) < 2 or pb[0] != pa[0] or pb[1] == pa[1] or a >= b:
                continue
            chain = {".".join(pa[:i + 1]) for i in range(len(pa))} | {".".join(pb[:i + 1]) for i in range(len(pb))}
            base = synth(a)[0]
            for smp in samples(d[b])[:2]:
                for cand in (base + smp, base + " " + smp.strip()):
                    if all(re.search(d[c], cand) for c in chain):
                        out.append((a, b, cand))
                        break
                else:
                    continue
                break
    _COMBOS = out
    return out


def enumerate_cases(tier, shard, nshards):
    from vf.core.runner import HarnessError
    from vf.model import sut
    seqs = list(db())
    missing = [s for s in seqs if not synth(s)]
    if missing:
        raise HarnessError("cannot synthesise a model string for devdb sequences %r: the exhaustive claim would be partial" % missing)
    i = 0
    for s in seqs:
        for k, model in enumerate(synth(s)):
            for soft in SOFTS:
                i += 1
                if i % nshards == shard:
                    yield {"enum": True, "seq": s, "model": model, "soft": soft}
    for v in sut.registry():
        i += 1
        if i % nshards == shard:
            yield {"enum": True, "seq": None, "model": sut.registry()[v].hardware.model, "soft": "", "canonical_of": v}
    # other spellings of the same strings (all lower case, doubled blanks): the family regexes are case- and space-sensitive
    seen_sp = set()
    for s_ in seqs:
        for model in synth(s_)[:2]:
            for sp in (model.lower(), model.replace(" ", "  "), model.upper()):
                if sp != model and sp not in seen_sp:
                    seen_sp.add(sp)
                    i += 1
                    if i % nshards == shard:
                        yield {"enum": True, "seq": None, "model": sp, "soft": "", "spelling_of": model}
    for a, b, model in combos():
        for soft in (SOFTS if tier == "thorough" else SOFTS[:2]):
            i += 1
            if i % nshards == shard:
                yield {"enum": True, "seq": a, "seq2": b, "model": model, "soft": soft}


@st.composite
def _cases(draw):
    seqs = list(db())
    s = draw(st.sampled_from(seqs))
    models = synth(s)
    model = draw(st.sampled_from(models))
    perm = draw(st.permutations(list(range(14))))
    soft = draw(st.sampled_from(SOFTS))
    return {"seq": s, "model": model, "soft": soft, "perm": perm}


def strategy(tier):
    return _cases()


# ------------------------------------------------------------------ canonical form of a compiled rulebook
def canon(x, depth=0):
    if isinstance(x, re.Pattern):
        return ("re", x.pattern, x.flags)
    if callable(x) and hasattr(x, "__module__"):
        return ("fn", x.__module__, getattr(x, "__qualname__", repr(x)))
    if isinstance(x, dict):
        return [(str(k), canon(v, depth + 1)) for k, v in x.items()]
    if isinstance(x, (list, tuple)):
        return [canon(v, depth + 1) for v in x]
    return x


def _full_seq_of(expr):
    """the full devdb sequence an expression like 'Cisco.Nexus' or 'OptiXtrans' denotes (unique alias resolution), or None"""
    parts = tuple(expr.split("."))
    hits = []
    for s in db():
        full = tuple(s.split("."))
        if full[-1] != parts[-1]:
            continue
        # parts must be a subsequence-alias: some contiguous slice of full's head plus the last element
        n = len(full)
        for left in range(n):
            for right in range(1, n - left + 1):
                if full[left:n - right] + (full[-1],) == parts:
                    hits.append(full)
    hits = sorted(set(hits))
    return hits[0] if len(hits) == 1 else None


def check(case):
    from annet.annlib.netdev.devdb import parse_hw_model
    from annet.annlib.netdev.views.hardware import HardwareView
    from annet.rulebook import DefaultRulebookProvider
    from annet.vendors.registry import Registry
    from vf.model import sut
    model, soft = case["model"], case["soft"]
    labels = []
    det = {"model": model, "soft": soft, "seq": case.get("seq")}
    true, false = parse_hw_model(model)
    tset = set(true)
    known = tset | set(false)
    if case.get("seq"):
        own = tuple(case["seq"].split("."))
        if own not in tset:
            raise Violation("own-sequence-false", f"model {model!r} satisfies the regex chain of {case['seq']} but that sequence is not true", det)
        if len(own) >= 2:
            labels.append("depth>=2")
    if case.get("seq2"):
        own2 = tuple(case["seq2"].split("."))
        if own2 not in tset:
            raise Violation("own-sequence-false", f"model {model!r} satisfies the regex chain of {case['seq2']} but that sequence is not true", det)
        labels.append("two-families")
    for t in tset:
        for i in range(1, len(t)):
            if t[:i] in known and t[:i] not in tset:
                raise Violation("not-hierarchical", f"model {model!r}: {'.'.join(t)} is true but its ancestor {'.'.join(t[:i])} is false", det)
    # reference reading of devdb.json: a full sequence is true iff every regex along its chain finds a match in the model string - for THIS
    # spelling of the model (the regexes are case- and space-sensitive), whatever other spellings the process has seen before
    d_ = db()
    ref_full = set()
    for sname in d_:
        parts = sname.split(".")
        if all(re.search(d_[".".join(parts[:i + 1])], model) for i in range(len(parts))):
            ref_full.add(tuple(parts))
    got_full = {t for t in tset if ".".join(t) in d_}
    if got_full != ref_full:
        raise Violation("parse-differs-from-devdb", f"model {model!r}: true sequences {sorted('.'.join(t) for t in got_full)} but the regex chains "
                        f"of devdb.json give {sorted('.'.join(t) for t in ref_full)}", det)
    hw = HardwareView(model, soft)
    # the view answers for every known sequence what the parse says (rulebook templates and vendor expressions go through the view)
    for seq_t in sorted(known):
        if not all(seq_t[:i] in known for i in range(1, len(seq_t))):
            continue   # (a path through an ambiguous, hence unknown, short name cannot be walked: by design)
        expr = ".".join(seq_t)
        try:
            ans = hw.match(expr)
        except AttributeError as e:
            raise Violation("view-disagrees", f"model {model!r}: hw.match({expr!r}) raises AttributeError although the sequence is known "
                            f"({'true' if seq_t in tset else 'false'} for this model): {e}", det)
        if ans != (seq_t in tset):
            raise Violation("view-disagrees", f"model {model!r}: hw.match({expr!r}) is {ans}, the parse says {seq_t in tset}", det)
    base = sut.registry()
    names = list(base)
    classes = [type(base[n]) for n in names]
    matching = []
    for n in names:
        for expr in base[n].match():
            try:
                ok = hw.match(expr)
            except AttributeError:
                ok = False
            if ok:
                matching.append((n, expr))
    if len({n for n, _ in matching}) >= 2:
        labels.append("several-vendors-match")
    if case.get("spelling_of"):
        labels.append("other-spelling")
        if not matching:
            return labels + ["spelling-not-covered-by-devdb"]   # (no vendor expression applies: nothing more is claimed for it)
    # expected vendor: the expression denoting the deepest full sequence
    exp = None
    if matching:
        depth = [(len(_full_seq_of(e) or ()), n) for n, e in matching]
        best = max(d for d, _ in depth)
        cands = sorted({n for d, n in depth if d == best})
        exp = cands[0] if len(cands) == 1 else None
    orders = []
    if "perm" in case:
        orders.append([classes[i] for i in case["perm"]])
        labels.append("random-permutation")
    orders += [classes[k:] + classes[:k] for k in range(len(classes))]
    got = set()
    for order in orders:
        r = Registry()
        for c in order:
            r.register(c)
        v = r.match(hw, None)
        got.add(v.NAME if v is not None else None)
    # the front end (HardwareView.vendor, what every caller reads) while vendors are still being registered - plug-ins register theirs
    # after the built-in ones, possibly after the model was looked up once: after every registration it answers as the registry does
    import annet.hardware as _H

    class _Conn:
        def __init__(self, reg):
            self.reg = reg

        def get(self, *a, **k):
            return self.reg
    saved_conn = _H.registry_connector
    try:
        for order in orders[:2]:
            r = Registry()
            _H.registry_connector = _Conn(r)
            for c in order:
                r.register(c)
                v = r.match(hw, None)
                front = HardwareView(model, soft).vendor
                if front != (v.NAME if v is not None else None):
                    raise Violation("front-end-vendor-stale", f"model {model!r}: after registering {[x.NAME for x in order[:order.index(c) + 1]]!r} "
                                    f"the registry resolves it to {(v.NAME if v is not None else None)!r}, HardwareView.vendor says {front!r}",
                                    dict(det, registered=[x.NAME for x in order[:order.index(c) + 1]]))
    finally:
        _H.registry_connector = saved_conn
    det["vendors"] = sorted(map(str, got))
    det["matching"] = matching
    ambiguous = bool(case.get("seq2")) and matching and exp is None
    if ambiguous:
        # a synthetic two-family string on which two vendors' expressions are equally specific (a 'Nexus' that is also an 'XR'): there is
        # no most specific vendor to choose, the statement does not apply; the rulebook of whichever vendor is chosen must still load
        labels.append("two-families-no-most-specific-vendor")
    elif len(got) > 1:
        raise Violation("vendor-depends-on-registration-order", f"model {model!r} resolves to {sorted(map(str, got))} depending on the order "
                        f"vendors are registered in (matching expressions: {matching})", det)
    vendor = sorted(map(str, got))[0] if ambiguous else got.pop()
    if ambiguous:
        vendor = hw.vendor
    if matching and exp is not None and vendor != exp:
        raise Violation("not-most-specific-vendor", f"model {model!r} resolves to {vendor!r}, the most specific matching vendor is {exp!r}", det)
    if case.get("canonical_of") and vendor != case["canonical_of"]:
        raise Violation("canonical-hardware-other-vendor", f"vendor {case['canonical_of']}'s own hardware {model!r} resolves to {vendor!r}", det)
    if vendor is None:
        raise Violation("no-vendor", f"model {model!r} (sequence {case.get('seq')}) resolves to no registered vendor", det)
    if hw.vendor != vendor:
        raise Violation("vendor-depends-on-registration-order", f"live registry gives {hw.vendor!r}, fresh registries {vendor!r}", det)
    rbs = []
    for _ in range(2):
        try:
            rbs.append(DefaultRulebookProvider().get_rulebook(HardwareView(model, soft)))
        except Exception as e:
            raise Violation("rulebook-does-not-load", f"model {model!r} soft {soft!r}: {type(e).__name__}: {e}"[:500], det)
    if canon(rbs[0]) != canon(rbs[1]):
        raise Violation("rulebook-not-deterministic", f"model {model!r}: two fresh providers give different rulebooks", det)
    # a long-lived provider (one per process, it has served every earlier model of this shard) must give the same rulebook
    global _SHARED
    if _SHARED is None:
        _SHARED = DefaultRulebookProvider()
    try:
        shared = _SHARED.get_rulebook(HardwareView(model, soft))
    except Exception as e:
        raise Violation("rulebook-does-not-load", f"long-lived provider, model {model!r}: {type(e).__name__}: {e}"[:400], det)
    if canon(shared) != canon(rbs[0]):
        raise Violation("rulebook-not-deterministic", f"model {model!r}: a provider that served other models before gives a different rulebook than a fresh one", det)
    for part in ("patching", "ordering", "deploying"):
        if part not in rbs[0]:
            raise Violation("rulebook-does-not-load", f"{part} missing", det)
    labels.append("vendor:" + vendor)
    return labels


def nontrivial(labels):
    return "depth>=2" in labels or "several-vendors-match" in labels
