"""C08 - ordering follows the ordering rulebook and only permutes lines."""
from collections import Counter, OrderedDict as odict

from hypothesis import strategies as st

from vf.core.runner import Violation
from vf.model import rulelang as RL
from vf.model.refmatch import ref_match
from vf.model.rnd import urandoms

PID = "C08"
LEVEL = "exploration"
BUDGET = {"quick": 8000, "thorough": 200000}
VENDORS = ["huawei", "cisco", "arista", "h3c", "nexus"]
RULE = ("Three case kinds. 'gen': Hypothesis draws a patching rule tree (default / undo_redo / %ordered), an ordering rulebook derived from "
        "it (per level a permutation of a subset of the rule heads - pairwise disjoint languages -, entries pinned with %order_reverse "
        "written in negated form at random positions, a dummy first entry, %global entries, nested to depth 3) and (old,new) with many "
        "sibling removals and additions. Oracle: reference rank (earlier rule first; negated-only matches mirrored and first; pinned "
        "entries override; unmatched 0): rank(c1)<rank(c2) => c1 before c2 among siblings, recursively with the child rules handed down; "
        "removal of a (rule,key) precedes its re-creation; multiset of command paths equals the unsorted patch's. 'config': a vendor and a "
        "random/corpus config tree: order_config only permutes rows within their block, is idempotent, keeps rows no rule mentions in "
        "relative order. 'corpus' (enumerated): every shipped (before,after) pair under the shipped *.order: deleting an unrelated "
        "top-level row from old and new leaves the relative order of the remaining commands unchanged. "
        "Non-trivial: >=3 sibling commands with >=2 distinct ranks including a negative one (gen); >=2 blocks reordered (config); "
        "non-empty patch with a deletable unrelated row (corpus).")
ASSUMPTIONS = [
    "sibling ordering rules have pairwise disjoint languages (best-match weights are never exercised), as the quantifier states",
    "pairs whose ranks come from different rule lists (an inherited %global entry vs a local child entry) are not compared: the "
    "statement does not define 'earlier' across them",
    "rank ties (e.g. unmatched vs rule 0) are not ordered by the oracle",
    "a pinned %order_reverse entry repeats its plain entry's words exactly; when the two differ in specificity the code's best-match "
    "weight decides which governs, which the property leaves open",
]
FLOORS = {"neg-rank": 0.1, "three-ranked-siblings": 0.15, "removal-then-recreation": 0.03}


# ------------------------------------------------------------------ ordering rulebook model
def orule(toks, children=(), order_reverse=False, glob=False):
    return {"toks": list(toks), "children": list(children), "order_reverse": order_reverse, "glob": glob}


def order_lines(rules, ind=0):
    out = []
    for r in rules:
        s = " " * ind + " ".join(r["toks"])
        # (hand-maintained *.order files separate the parameters from the row with blanks, runs of blanks or a TAB)
        if r["order_reverse"]:
            s += r.get("sep", " ") + "%order_reverse"
        if r["glob"]:
            s += r.get("sep", " ") + "%global"
        out.append(s)
        out += order_lines(r["children"], ind + 4)
    return out


def gen_order(rnd, rules, rev, depth=0):
    out = []
    heads = [r for r in rules if not r.get("glob")]
    chosen = rnd.sample(heads, rnd.randint(min(2, len(heads)), len(heads))) if heads else []
    if depth == 0 and rnd.chance(70):
        out.append(orule(["zzzfirst"]))
    plain = []
    seen_heads = set()
    for r in chosen:
        # sibling ordering rules must have pairwise disjoint languages (the property's domain): rules sharing their first word get ONE
        # ordering entry, on that word alone, with the children of all of them
        head = r["toks"][0]
        if head in seen_heads:
            continue
        seen_heads.add(head)
        group = [x for x in heads if x["toks"][0] == head]
        if len(group) > 1:
            toks = [head]
            kids = [c for x in group for c in x["children"]]
        else:
            toks = [head] if rnd.chance(60) else [t for t in r["toks"] if t != "~"]
            kids = r["children"]
            if not kids and "~" not in r["toks"] and RL.fully_keyed(r) and rnd.chance(35):
                # an end-anchored entry ('undo system tcam acl$' in the shipped files): the line ends right after the rule's words
                full = list(r["toks"])
                toks = full[:-1] + [(full[-1] + "$") if full[-1] != "*" else "*/\\S+$/"]
        ch = gen_order(rnd, kids, rev, depth + 1) if kids and rnd.chance(70) else []
        out.append(orule(toks, ch))
        plain.append(toks)
    # pinned entries repeat the plain entry's words exactly (same specificity), so that which of the two governs a removal does not
    # depend on the best-match weight heuristic
    for toks in rnd.sample(plain, rnd.randint(0, min(2, len(plain)))):
        pos = rnd.randint(0, len(out))
        out.insert(pos, orule([rev] + toks, order_reverse=True))
        if rnd.chance(40):
            out[pos]["sep"] = rnd.choice(["\t", "   ", " \t", "\t\t"])
    if depth == 0:
        for r in rules:
            if r.get("glob") and rnd.chance(70):
                out.insert(rnd.randint(0, len(out)), orule([r["toks"][0]], glob=True))
                if rnd.chance(30):
                    out[-1 if False else [i for i, x in enumerate(out) if x["glob"]][-1]]["sep"] = "\t"
    return out


def _om(toks, row):
    """reference match of an ordering entry; a trailing '$' on the last token anchors the end of the line"""
    last = toks[-1]
    if last.endswith("$") or last == "*/\\S+$/":
        plain_toks = toks[:-1] + ["*" if last == "*/\\S+$/" else last[:-1]]
        if len(row.split(" ")) != len(plain_toks):
            return None
        return ref_match(plain_toks, row)
    return ref_match(toks, row)


def ref_order(row, direct, olist, rev):
    """-> (rank, kind, child_list); kind tells which list the rank's index refers to"""
    removal = not direct
    rank, src = 0, None
    children = []
    pinned = False
    for i, r in enumerate(olist):
        if r["glob"]:
            children.append(dict(r, _src="g"))
        if r["order_reverse"]:
            if removal and not pinned and _om(r["toks"], row) is not None:
                rank, src, pinned = i, r.get("_src", "l"), True
            continue
        m_direct = _om(r["toks"], row) is not None
        m_rev = row.startswith(rev + " ") and _om(r["toks"], row[len(rev) + 1:]) is not None
        if m_direct or m_rev:
            if not pinned and src is None:
                rank, src = (i if direct else -i), r.get("_src", "l")
            children.extend(dict(c, _src="l") for c in r["children"])
    return rank, src, children


# ------------------------------------------------------------------ strategies
def _gen_case(rnd):
    vendor = rnd.choice(VENDORS)
    rules = RL.gen_rules(rnd, opts={"logics": ("common.undo_redo",), "rewrite": False, "comments": True})
    ctx = RL.Ctx(rules)
    from_registry_rev = {"huawei": "undo", "h3c": "undo"}.get(vendor, "no")
    order = gen_order(rnd, rules, from_registry_rev)
    old = RL.gen_tree(rnd, ctx)
    new = RL.mutate(rnd, ctx, old) if rnd.chance(60) else RL.gen_tree(rnd, ctx)
    # a mixed fleet: the same rulebook texts were compiled for a device of another vendor earlier in the process
    prior = rnd.choice([v for v in VENDORS + ["juniper"] if v != vendor]) if rnd.chance(40) else None
    return {"kind": "gen", "vendor": vendor, "rules": rules, "order": order, "old": RL.plain(old), "new": RL.plain(new), "prior": prior}


CFG_VENDORS = ["huawei", "cisco", "arista", "nexus", "juniper", "iosxr", "aruba", "b4com", "pc", "routeros", "h3c", "optixtrans"]
CFG_ROWS = {
    "huawei": ["sysname x", "vlan batch 1 2", "interface GE1/0/1", "interface Eth-Trunk1", "bgp 65000", "aaa", "acl number 3000",
               "ip ip-prefix P index 10 permit 10.0.0.0 8", "route-policy RP permit node 10", "undo stp enable", "ntp-service server 1.1.1.1",
               "snmp-agent", "ip vpn-instance V", "user-interface vty 0 4", "xpl route-filter F", "quit", "port link-type trunk",
               "description foo", "undo shutdown", "peer 1.1.1.1 as-number 1", "ipv4-family unicast", "rule 5 permit ip"],
    "cisco": ["hostname x", "vlan 10", "interface Gi0/1", "router bgp 65000", "ip access-list extended A", "no ip http server",
              "line vty 0 4", "ntp server 1.1.1.1", "exit", "description foo", "no shutdown", "switchport mode trunk",
              "address-family ipv4", "neighbor 1.1.1.1 remote-as 1", "permit ip any any", "snmp-server community x"],
}


def _cfg_case(rnd):
    vendor = rnd.choice(CFG_VENDORS)
    pool = CFG_ROWS.get(vendor if vendor in CFG_ROWS else ("huawei" if vendor in ("h3c", "optixtrans") else "cisco"))

    def gen(d=0):
        t = odict()
        for row in rnd.sample(pool, rnd.randint(1, 7)):
            t[row] = gen(d + 1) if d < 2 and rnd.chance(45) else odict()
        return t
    return {"kind": "config", "vendor": vendor, "tree": RL.plain(gen())}


def _gen_from(rnd):
    return _gen_case(rnd) if rnd.chance(75) else _cfg_case(rnd)


@st.composite
def _cases(draw):
    return _gen_from(draw(urandoms()))


def fuzz_decode(fdp):
    """coverage-guided tier: the same generator driven by fuzzer-chosen bytes (vf/core/fuzz_target.py)"""
    from vf.model.rnd import FdpRandom
    return _gen_from(FdpRandom(fdp))

def strategy(tier):
    return _cases()


def enumerate_cases(tier, shard, nshards):
    from vf.model import corpus
    for i, s in enumerate(corpus.samples()):
        if i % nshards == shard:
            yield {"kind": "corpus", "index": i, "name": s["name"], "enum": True}


# ------------------------------------------------------------------ checks
def _patch_items(pt):
    return [(it.row, it.child) for it in pt.itms]


def _paths(pt, prefix=()):
    out = []
    for it in pt.itms:
        out.append(prefix + (it.row,))
        if it.child is not None:
            out += _paths(it.child, prefix + (it.row,))
    return out


def _check_level(pt, olist, ctx, rev, path, labels, det):
    items = _patch_items(pt)
    ranked = []
    for row, child in items:
        direct = not (row.startswith(rev + " ") and ctx.classify(row) is None)
        rank, src, children = ref_order(row, direct, olist, rev)
        ranked.append((row, direct, rank, src, children, child))
    n_ranked = len([1 for x in ranked if x[3] is not None])
    if any(x[2] < 0 for x in ranked):
        labels.append("neg-rank")
    if len(ranked) >= 3 and len({x[2] for x in ranked}) >= 2 and n_ranked >= 2:
        labels.append("three-ranked-siblings")
    if any(x[2] > 0 and not x[1] for x in ranked):
        labels.append("pinned-removal")
    for i in range(len(ranked)):
        for j in range(i + 1, len(ranked)):
            a, b = ranked[i], ranked[j]
            comparable = a[3] is None or b[3] is None or a[3] == b[3]
            if comparable and a[2] > b[2]:
                raise Violation("rank-order", f"in block {path!r}: {a[0]!r} (rank {a[2]}) is emitted before {b[0]!r} (rank {b[2]})", det)
    # removal precedes re-creation of the same (rule,key)
    for i, a in enumerate(ranked):
        if not a[1] and any(b[1] and ctx.ident(b[0]) == ctx.ident(a[0][len(rev) + 1:]) for b in ranked[i + 1:]):
            labels.append("removal-then-recreation")
        if a[1]:
            ida = ctx.ident(a[0])
            for j in range(i + 1, len(ranked)):
                b = ranked[j]
                # (a removal the rulebook pins to an explicit position is exempt: "except where the rulebook pins a negated command")
                if not b[1] and b[2] <= 0 and ctx.ident(b[0][len(rev) + 1:]) == ida and ida is not None:
                    raise Violation("recreate-before-remove", f"in block {path!r}: {a[0]!r} is re-created before its removal {b[0]!r}", det)
    for row, direct, rank, src, children, child in ranked:
        if child is not None and direct:
            cl = ctx.classify(row)
            if cl is not None:
                _check_level(child, children, ctx.child(cl[0], row), rev, path + (row,), labels, det)


def _gen(case):
    import annet.annlib.patching as P
    from vf.model import sut
    vendor, rules = case["vendor"], case["rules"]
    rev, exitw = sut.vendor_words(vendor)
    ctx = RL.Ctx(rules)
    otext = "\n".join(order_lines(case["order"])) + "\n"
    labels = ["gen", "vendor:" + vendor]
    if "$" in otext:
        labels.append("end-anchored-entry")
    if case.get("prior"):
        sut.make_rb(RL.rule_text(rules), case["prior"], ordering_text=otext)
        labels.append("prior-vendor")
    rb = sut.make_rb(RL.rule_text(rules), vendor, ordering_text=otext)
    old, new = RL.to_odict(case["old"]), RL.to_odict(case["new"])
    d, pt = sut.diff_and_patch(vendor, old, new, rb)
    det = {"rulebook": RL.rule_text(rules), "ordering": otext, "patch": [list(p) for p in _paths(pt)]}
    _check_level(pt, [dict(r, _src="l") for r in case["order"]], ctx, rev, (), labels, det)
    # ordering only permutes: same multiset of paths as the unsorted patch
    orig = P.PatchTree.sort
    try:
        P.PatchTree.sort = lambda self: None
        d2, pt2 = sut.diff_and_patch(vendor, old, new, rb)
    finally:
        P.PatchTree.sort = orig
    # comments are documentation: asking for them must not move any command
    if any(r.get("comment") for r in _all_rules(rules)):
        dc, ptc = sut.diff_and_patch(vendor, old, new, rb, add_comments=True)

        def strip(p):
            return tuple(x.split(" !!note-")[0] for x in p)
        with_c = [strip(p) for p in _paths(ptc)]
        if with_c != [tuple(p) for p in _paths(pt)]:
            raise Violation("comments-move-commands", f"with comments the commands come out as {with_c!r}, without as {_paths(pt)!r}"[:700], det)
        if any(" !!note-" in x for p in _paths(ptc) for x in p):
            labels.append("commented-command")
    # the same ordering rulebook applied to a generated CONFIGURATION (what 'annet gen' prints): rows of the new side plus the negated
    # form of every other one (so that pinned and mirrored entries have something to place); same rank rule, read off the row's text
    from annet.annlib.patching import Orderer
    cfg = _with_negated_twins(new, rev)
    ordered = Orderer(rb["ordering"], vendor).order_config(cfg)
    det["ordered_config"] = RL.plain(ordered)
    if _unordered(ordered) != _unordered(cfg):
        raise Violation("order-config-loses", "order_config changed the set of rows of a generated configuration", det)
    _check_cfg_level(ordered, [dict(r, _src="l") for r in case["order"]], rev, (), labels, det)
    if Counter(_paths(pt)) != Counter(_paths(pt2)):
        raise Violation("not-a-permutation", "sorting the patch lost or duplicated a command", det)
    if _paths(pt) != _paths(pt2):
        labels.append("sort-changed-order")
    return labels


def _with_negated_twins(tree, rev):
    out = odict()
    for i, (row, ch) in enumerate(tree.items()):
        out[row] = _with_negated_twins(ch, rev) if ch else odict()
    for i, row in enumerate(list(tree)):
        if i % 2 == 0 and not row.startswith(rev):
            out[rev + " " + row] = odict()
    return out


def _check_cfg_level(tree, olist, rev, path, labels, det):
    ranked = []
    for row, ch in tree.items():
        if row.startswith(rev) and not row.startswith(rev + " "):
            continue      # a word that merely starts with the negation letters: which class order_config puts it in is not stated
        direct = not row.startswith(rev + " ")
        rank, src, children = ref_order(row, direct, olist, rev)
        ranked.append((row, direct, rank, src, children, ch))
    if any(x[2] > 0 and not x[1] for x in ranked):
        labels.append("config-pinned-negated-row")
    for i in range(len(ranked)):
        for j in range(i + 1, len(ranked)):
            a, b = ranked[i], ranked[j]
            comparable = a[3] is None or b[3] is None or a[3] == b[3]
            if comparable and a[2] > b[2]:
                raise Violation("config-rank-order", f"ordered configuration, block {path!r}: {a[0]!r} (rank {a[2]}) stands before {b[0]!r} "
                                f"(rank {b[2]})", det)
    for row, direct, rank, src, children, ch in ranked:
        if ch and direct:
            _check_cfg_level(ch, children, rev, path + (row,), labels, det)


def _all_rules(rules):
    for r in rules:
        yield r
        yield from _all_rules(r["children"])


def _unordered(t):
    return {k: _unordered(v) for k, v in t.items()}


def _config(case):
    from annet.annlib.patching import Orderer
    from annet.annlib.rbparser.ordering import compile_ordering_text
    from annet.rulebook import get_rulebook
    from vf.model import sut
    vendor = case["vendor"]
    hw = sut.registry()[vendor].hardware if vendor not in sut.BLOCK_VENDORS else sut.hw_for(vendor)
    rb = get_rulebook(hw)
    o = Orderer(rb["ordering"], hw.vendor)
    t = RL.to_odict(case["tree"])
    labels = ["config", "vendor:" + vendor]
    out = o.order_config(t)
    det = {"vendor": vendor, "ordered": RL.plain(out)}
    if _unordered(out) != _unordered(t):
        raise Violation("order-config-loses", f"order_config changed the set of rows: {RL.plain(out)!r}"[:500], det)
    out2 = o.order_config(out)
    if _seq(out2) != _seq(out):
        raise Violation("order-config-not-idempotent", "ordering an ordered configuration changes it again", det)
    # rows no rule mentions keep their relative order (per block, top level)
    rev = sut.registry()[hw.vendor].reverse
    # (negated-form rows are placed before plain rows by design - "removal commands come first" -, so the two classes are compared separately)
    for neg in (False, True):
        unm = [r for r in t if o.get_order(r, not r.startswith(rev))[3] == "" and r.startswith(rev + " ") == neg]
        if [r for r in out if r in unm] != unm:
            raise Violation("order-config-unstable", f"rows no ordering rule mentions changed their relative order: {unm!r}", det)
    if list(out) != list(t):
        labels.append("reordered")
    # the order inside a block depends on the block alone (its rules are handed down by its header), not on where the header stands
    # among its siblings or on unrelated lines: (i) every nested block of the result equals the result of ordering that block on its
    # own with the rules its header hands down; (ii) reversing the top-level rows of the input changes no nested block
    def nested(o_, src, res, path=()):
        for row, ch in src.items():
            if not ch:
                continue
            (_, _, crb, _) = o_.get_order(row, not row.startswith(rev))
            co = Orderer(crb, hw.vendor)
            alone = co.order_config(ch)
            if _seq(alone) != _seq(res[row]):
                raise Violation("order-config-nested", f"block {path + (row,)!r}: inside the whole configuration it comes out as "
                                f"{list(res[row])!r}, ordered on its own (same rules) as {list(alone)!r}", det)
            if list(alone) != list(ch):
                labels.append("nested-reordered")
            nested(co, ch, res[row], path + (row,))
    nested(o, t, out)
    rt = odict(reversed(list(t.items())))
    outr = o.order_config(rt)
    for row in t:
        if _seq(outr[row]) != _seq(out[row]):
            raise Violation("order-config-nested", f"block {row!r} is ordered differently when the top-level rows are listed in reverse: "
                            f"{list(outr[row])!r} vs {list(out[row])!r}", det)
    return labels


def _seq(t):
    return [(k, _seq(v)) for k, v in t.items()]


def _corpus(case):
    from annet.annlib.netdev.views.hardware import HardwareView
    from annet.rulebook import get_rulebook
    from vf.model import corpus, sut
    s = corpus.samples()[case["index"]]
    hw = HardwareView(s["model"], None)
    vendor = s["vendor"]
    rb = get_rulebook(hw)
    labels = ["corpus", "vendor:" + vendor]

    def run(old, new):
        from annet.api import _diff_and_patch
        d, pt = _diff_and_patch(sut.Dev(hw), old, new, None, None, False, rb=rb)
        return [it.row for it in pt.itms], pt
    try:
        base, pt = run(s["old"], s["new"])
    except Exception:
        return labels + ["corpus-raises"]
    if not base:
        return labels + ["empty-patch"]
    # unrelated top-level rows: rows whose first word no other top-level row of old/new shares (so no logic function couples them);
    # delete each in turn from both sides
    allrows = list(s["old"]) + [r for r in s["new"] if r not in s["old"]]
    heads = Counter(r.split(" ")[0] for r in allrows)
    cands = [r for r in allrows if heads[r.split(" ")[0]] == 1]
    tried = 0
    for r in cands[:6]:
        o2 = odict((k, v) for k, v in s["old"].items() if k != r)
        n2 = odict((k, v) for k, v in s["new"].items() if k != r)
        try:
            got, _ = run(o2, n2)
        except Exception:
            continue
        tried += 1
        common = [c for c in base if c in got]
        common2 = [c for c in got if c in base]
        if Counter(common) == Counter(common2) and common != common2:
            raise Violation("order-depends-on-unrelated", f"{s['name']}: deleting top-level row {r!r} from old and new changes the relative order "
                            f"of the remaining commands: {common!r} vs {common2!r}"[:700], {"sample": s["name"], "row": r})
    if tried:
        labels.append("metamorphic-deletion")
    return labels


def check(case):
    if case["kind"] == "gen":
        return _gen(case)
    if case["kind"] == "config":
        return _config(case)
    return _corpus(case)


def nontrivial(labels):
    return (("three-ranked-siblings" in labels and "neg-rank" in labels) or ("config" in labels and "reordered" in labels)
            or "metamorphic-deletion" in labels)
