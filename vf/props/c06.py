"""C06 - ACL filtering selects exactly the covered lines and nothing else."""
from collections import OrderedDict as odict

from hypothesis import strategies as st

from vf.core.runner import Violation
from vf.model import refacl as RA
from vf.model.rnd import urandoms

PID = "C06"
LEVEL = "exploration"
BUDGET = {"quick": 12000, "thorough": 400000}
HEADS = ["alpha", "beta", "gamma", "delta", "interface", "eps", "notify", "undone"]   # (the last two merely start like "no" / "undo")
RULE = ("Hypothesis draws two ACL texts A, B over the ACL language (nesting<=3, *, trailing ~, literal words, '~ %global' catch-alls, literal "
        "%global leaf rules, %cant_delete=0/1) and a tree over the same words with covered and uncovered rows interleaved at every depth; "
        "vendor huawei / cisco / juniper (rows with the 'inactive: ' marker). Oracle: vf.model.refacl.ref_filter (independent coverage "
        "model over the word-level matcher): apply_acl == reference as an ordered tree and is an order-preserving subtree of the input; "
        "idempotent; both single-ACL results are subtrees of the merged-ACL result (merged through the production %generator_names "
        "tagging), which itself equals the reference; fatal_acl raises AclError iff the reference finds an uncovered row under covered "
        "ancestors and names it; filter_config agrees. Non-trivial: result neither empty nor the whole tree, depth>=2.")
ASSUMPTIONS = [
    "%global rules are catch-alls (~) or literal leaf rules, so 'a global rule covers the whole subtree' and the code's inheritance coincide",
    "negated config lines ('undo x', 'no x') are generated only for heads that no rule of the case protects (%cant_delete / interface default); %prio is not generated (tie-breaks by specificity are not part of the statement)",
]
FLOORS = {"strict-subset": 0.3, "fatal-raises": 0.2, "nested-result": 0.25, "union-bigger": 0.15}


def gen_acl(rnd, d=0):
    rules = []
    for h in rnd.sample(HEADS, rnd.randint(1, 4)):
        toks = [h] + [rnd.choice(["*", "lx"]) for _ in range(rnd.randint(0, 2))]
        if rnd.chance(20):
            if len(toks) == 1:
                toks.append("*")      # the exact text '<head> ~' is reserved for the head-specific %global rules below: a local and a
            toks.append("~")          # global rule with one text are merged into a single global rule by the ACL compiler
        ch = []
        x = rnd.randint(0, 99)
        if d < 2 and x < 35:
            ch = gen_acl(rnd, d + 1)
        elif d < 2 and x < 50:
            ch = [RA.acl_rule(["~"], glob=True)]
        rules.append(RA.acl_rule(toks, ch, cd=rnd.choice([None, None, 0, 1]), icase=rnd.chance(12)))
        if d < 2 and rnd.chance(20):
            # a second, partially overlapping local rule for the same head with its own children (union of children applies)
            rules.append(RA.acl_rule([h, rnd.choice(["lx", "a", "*", "*/[a-z]+/", "*/[0-9]+/", "*/[a-z]+/"])] + (["~"] if rnd.chance(30) else []),
                                     gen_acl(rnd, d + 1) if rnd.chance(70) else [],
                                     cd=rnd.choice([None, 0, 1])))
    if rnd.chance(10) and rules:
        # a catch-all %global for one head ('interface ~ %global'): same specificity as the local wildcard rule of that head on plain
        # alphanumeric rows, the local rule (listed first) governs and its children rules still apply
        gh = rnd.choice(rules)["toks"][0]
        if not any(r["toks"] == [gh, "~"] for r in rules):
            rules.append(RA.acl_rule([gh, "~"], glob=True))
    if d > 0 and rnd.chance(15):
        rules.append(RA.acl_rule(["glit"], glob=True))
    if d == 0 and rnd.chance(4):
        rules.append(RA.acl_rule(["~"], glob=True))
    return rules


def _inst(rnd, toks):
    w = []
    for tk in toks:
        if tk == "*":
            w.append(rnd.choice(["lx", "a", "b", "1"]))
        elif tk.startswith("*/"):
            w.append(rnd.choice(["a", "b", "lx"]) if "a-z" in tk else rnd.choice(["1", "7"]))   # a word the placeholder regex accepts
        elif tk == "~":
            w += [rnd.choice(["lx", "a", "b"]) for _ in range(rnd.randint(1, 2))]
        else:
            w.append(tk)
    if toks[-1] != "~" and rnd.chance(30):
        w.append(rnd.choice(["a", "1"]))
    return " ".join(w)


def _cd_heads(rules, acc=None):
    """heads that some rule protects (%cant_delete, or the built-in default for 'interface...'): a NEGATED line of such a head is
    refused when the protecting rule governs it, which depends on the specificity metric - not generated"""
    acc = set() if acc is None else acc
    for r in rules:
        if RA.cant_delete(r):
            acc.add(r["toks"][0])
        _cd_heads(r["children"], acc)
    return acc


def gen_tree(rnd, d=0, jun=False, rules=(), rev=None, protected=()):
    """rows instantiated from the ACL rules applicable here (so that coverage is frequent), mixed with foreign rows"""
    t = odict()
    for _ in range(rnd.randint(1, 5)):
        sub = ()
        cands = [r for r in rules if r["toks"] != ["~"]]
        if cands and rnd.chance(60):
            r = rnd.choice(cands)
            row = _inst(rnd, r["toks"])
            sub = [c for x in rules if x["toks"][0] == r["toks"][0] for c in x["children"]]
        else:
            h = rnd.choice(HEADS + ["zzz", "glit"])
            row = " ".join([h] + [rnd.choice(["lx", "a", "b", "1"]) for _ in range(rnd.randint(0, 3))])
        if rnd.chance(8):
            row = row.upper() if rnd.chance(50) else row.capitalize()   # differs from the rule words only by letter case
        if jun and rnd.chance(20):
            row = "inactive: " + row
        if rev and rnd.chance(10) and row.split(" ")[0].lower() not in protected:
            t[rev + " " + row] = odict()    # a negated line ('undo alpha a'): covered by whatever covers the plain line
            continue
        t[row] = gen_tree(rnd, d + 1, jun, sub, rev, protected) if d < 3 and rnd.chance(55) else odict()
    return t


def plain(t):
    return {k: plain(v) for k, v in t.items()}


def to_odict(t):
    return odict((k, to_odict(v)) for k, v in t.items())


def _gen_from(rnd):
    vendor = rnd.choice(["huawei", "cisco", "juniper"])
    a, b = gen_acl(rnd), gen_acl(rnd)
    if rnd.chance(18):
        # two generators describe one block differently: A hands everything below it to a '~ %global' rule, B lists '~' as a plain rule
        # with children rules of its own; merged, the row is global (A passes the whole subtree alone, so the union must)
        cand = [r for r in a if len(r["children"]) == 1 and r["children"][0]["toks"] == ["~"] and r["children"][0].get("glob")]
        # (B's plain '~' rule must be the only rule that can govern the lines of that block: next to an inherited %global rule the
        # governing rule is chosen by the specificity metric - and when a global one wins, the children rules of the local ones are
        # not applied -, which the property leaves open; so no top-level %global rules in either ACL here)
        if cand and not any(x.get("glob") for x in a + b):
            r = rnd.choice(cand)
            if not any(x["toks"][0] == r["toks"][0] for x in b):
                b.append(RA.acl_rule(list(r["toks"]), [RA.acl_rule(["~"], [RA.acl_rule([rnd.choice(HEADS), "~"])])], cd=r.get("cd"),
                                     icase=bool(r.get("icase"))))
    return {"vendor": vendor, "A": a, "B": b, "tree": plain(gen_tree(rnd, jun=(vendor == "juniper"), rules=a + b, rev={"huawei": "undo", "cisco": "no"}.get(vendor),
                                                               protected={h.lower() for h in _cd_heads(a + b)} | {"interface"})),
            "acl_indents": [rnd.choice([0, 4, 8]), rnd.choice([0, 4, 12])], "acl_comments": rnd.choice([0, 0, 1, 2, 3])}


@st.composite
def _cases(draw):
    return _gen_from(draw(urandoms()))


def fuzz_decode(fdp):
    """coverage-guided tier: the same generator driven by fuzzer-chosen bytes (vf/core/fuzz_target.py)"""
    from vf.model.rnd import FdpRandom
    return _gen_from(FdpRandom(fdp))

def strategy(tier):
    return _cases()


def order(t):
    return [(k, order(v)) for k, v in t.items()]


def size(t):
    return sum(1 + size(v) for v in t.values())


def depth(t):
    return 0 if not t else 1 + max(depth(v) for v in t.values())


def _nocomment(text):
    """the combined ACL text without comment lines (they are tagged like any line, and skipped by the parser)"""
    return "".join(l + "\n" for l in text.split("\n") if l and not l.strip().startswith("#"))


def check(case):
    from annet.annlib.filter_acl import filter_config
    from annet.annlib.patching import AclError, apply_acl
    from annet.annlib.rbparser.acl import compile_acl_text
    from annet.annlib.tabparser import parse_to_tree
    from vf.model import sut
    vendor = case["vendor"]
    rev = {"huawei": "undo", "cisco": "no"}.get(vendor)
    norm = (lambda r: r[len("inactive: "):] if r.startswith("inactive: ") else r) if vendor == "juniper" else None
    t = to_odict(case["tree"])
    labels = ["vendor:" + vendor]
    res = {}
    from vf.props.c20 import _acl_digest
    for ai, name in enumerate(("A", "B")):
        rules = case[name]
        # the literal as a generator's source has it: a leading newline and a common left margin (the first rule's indent is the base level)
        pad = " " * (case.get("acl_indents") or [0, 0])[ai]
        text = "\n" + "".join(pad + l + "\n" for l in RA.acl_lines(rules))
        comp = compile_acl_text(text, vendor)
        before = _acl_digest(comp)
        got = apply_acl(t, comp)
        exp = RA.ref_filter(t, RA.ACtx.top([(name, rules)], norm, rev))
        det = {"acl": text, "got": plain(got), "expected": plain(exp)}
        if order(got) != order(exp):
            raise Violation("filter-differs", f"apply_acl(t,{name}) != reference filter: got {plain(got)!r} expected {plain(exp)!r}"[:700], det)
        if not RA.is_subtree(got, t):
            raise Violation("not-a-subtree", "result is not an order-preserving subtree of the input", det)
        again = apply_acl(got, comp)
        if order(again) != order(got):
            raise Violation("not-idempotent", f"filtering twice changes the result: {plain(again)!r} vs {plain(got)!r}"[:600], det)
        res[name] = got
        # strict mode
        bad = RA.first_uncovered(t, RA.ACtx.top([(name, rules)], norm, rev))
        try:
            apply_acl(t, comp, fatal_acl=True)
            raised = None
        except AclError as e:
            raised = str(e)
        if (raised is None) != (bad is None):
            raise Violation("fatal-acl", f"strict mode: raised={raised!r} but reference's first uncovered row is {bad!r}", det)
        if bad is not None:
            labels.append("fatal-raises")
            if raised != " / ".join(bad):
                raise Violation("fatal-acl-message", f"strict mode names {raised!r}, the uncovered row is {' / '.join(bad)!r}", det)
        if 0 < size(got) < size(t):
            labels.append("strict-subset")
            if depth(got) >= 2:
                labels.append("nested-result")
        if any(k.startswith("inactive: ") for k in _all_rows(got)):
            labels.append("jun-inactive-kept")
        if _acl_digest(comp) != before:
            # the compiled ACL is cached and shared: filtering is a pure function of (configuration, ACL) only if matching leaves what
            # the ACL decides (deletability, ownership, priority per rule) alone
            raise Violation("acl-modified-by-filtering", f"after filtering with {name} the compiled ACL decides differently for some rule", det)
    named = [("A", case["A"]), ("B", case["B"])]
    ctext = sut.production_acl_text(named, case.get("acl_indents"), case.get("acl_comments", 0))
    if _nocomment(ctext) != RA.combined_text(named):
        raise Violation("acl-merge-text", "the combined ACL text differs from 'every line of every generator, dedented, tagged'",
                        {"got": ctext, "expected": RA.combined_text(named)})
    cab = compile_acl_text(ctext, vendor)
    before_ab = _acl_digest(cab)
    ab = apply_acl(t, cab)
    if _acl_digest(cab) != before_ab:
        raise Violation("acl-modified-by-filtering", "after filtering with the merged ACL the compiled ACL decides differently for some rule",
                        {"acl": ctext})
    expab = RA.ref_filter(t, RA.ACtx.top(named, norm, rev))
    det = {"acl": ctext, "got": plain(ab), "expected": plain(expab)}
    for name in ("A", "B"):
        if not RA.is_subtree(res[name], ab):
            raise Violation("union-loses", f"a row passed by {name} alone is not passed by the merged ACL", det)
    if order(ab) != order(expab):
        raise Violation("merged-filter-differs", f"merged ACL: got {plain(ab)!r} expected {plain(expab)!r}"[:700], det)
    if size(ab) > max(size(res["A"]), size(res["B"])):
        labels.append("union-bigger")
    # library entry point
    if vendor != "juniper" or not any(k.startswith("inactive: ") for k in _all_rows(t)):
        fmt = sut.registry()[vendor].make_formatter()
        out = filter_config(compile_acl_text(RA.acl_text(case["A"]), vendor), fmt, fmt.join(t))
        back = parse_to_tree(out, fmt.split)
        if order(back) != order(res["A"]):
            raise Violation("filter_config", f"filter_config gives {plain(back)!r}, apply_acl {plain(res['A'])!r}"[:600], det)
    return labels


def _all_rows(t):
    for k, v in t.items():
        yield k
        yield from _all_rows(v)


def nontrivial(labels):
    return "nested-result" in labels
