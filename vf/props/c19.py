"""C19 - file-based devices get each changed file once, from the winning generator."""
import itertools
import types

from hypothesis import strategies as st

from vf.core.runner import Violation, known_or_raise

PID = "C19"
LEVEL = "exploration"
BUDGET = {"quick": 6000, "thorough": 200000}
PATHS = ["/etc/a.conf", "/etc/frr/frr.conf", "/etc/b/c.json"]
RULE = ("Hypothesis draws 1..5 Entire generators (path from a pool of 3, pairwise distinct priorities, output as a string / tuple parts / "
        "several yielded parts, reload string or none, is_safe flag), a listing order, an old file map (per path: absent / equal to the "
        "planned content / different / differing only in line terminators or absent-vs-empty), entire_reload in {yes,no,force}, "
        "acl_safe in {0,1}, hardware PC plain or PC with Cumulus software. Pipeline: run_file_generators(...).new_files() in EVERY listing "
        "order (<=120), PCDeployerJob.parse_result with an own DeployDriver and UnifiedFileDiffer, annet.diff.pc_diff. Oracle (reference "
        "model): content of a path = output of the max-priority generator for it (safe filter after selection); uploaded files == "
        "{p: new[p] bytes | old.get(p) != new[p] or force}; reload command present iff reloads enabled (and it is the generator's); "
        "pc_diff lists a file iff old text != new text. Non-trivial: >=2 generators on one path and >=1 unchanged + >=1 changed file.")
ASSUMPTIONS = [
    "own DeployDriver (empty session wrapper) and UnifiedFileDiffer are installed through the connectors; shipped pc.deploy is empty",
]
FLOORS = {"competing-generators": 0.3}


@st.composite
def _cases(draw):
    n = draw(st.integers(1, 5))
    prios = draw(st.lists(st.integers(-60, 200), min_size=n, max_size=n, unique=True))   # fallback generators sit below 0
    gens = []
    for i in range(n):
        kind = draw(st.sampled_from(["str", "tuple", "multi"]))
        words = draw(st.lists(st.sampled_from(["alpha", "beta", "x=1", "# c", "line two", "", "z", "a\tb\t", "text:  ", "dos line\r", "banner\r"]), min_size=1, max_size=4))
        gens.append({"path": draw(st.sampled_from(PATHS)), "prio": prios[i], "kind": kind, "words": words,
                     "reload": draw(st.sampled_from([None, "systemctl reload a", "true", ""])), "safe": draw(st.booleans()),
                     "inherited": draw(st.sampled_from([0, 0, 0, 1, 2]))})
    old = {}
    for p in PATHS:
        old[p] = draw(st.sampled_from(["absent", "equal", "equal", "equal", "different", "different", "terminator", "empty", "trailing-blank", "blank-line"]))
    return {"gens": gens, "old": old, "reload": draw(st.sampled_from(["yes", "no", "force"])), "acl_safe": draw(st.booleans()),
            "soft": draw(st.sampled_from(["", "Cumulus Linux 5.4"]))}


def strategy(tier):
    return _cases()


def _output(g):
    w = g["words"]
    if g["kind"] == "str":
        return "\n".join(w)
    if g["kind"] == "tuple":
        return " ".join(w)
    return "\n".join(w)


_INSTALLED = False


class _Dev:
    def __init__(self, hw):
        self.hw, self.hostname, self.fqdn, self.id, self.breed, self.tags = hw, "h1", "h1.example", 1, "pc", []


def _install():
    global _INSTALLED
    if _INSTALLED:
        return
    import annet.deploy as D
    import annet.diff as DF
    from annet.annlib.command import CommandList

    class Driver(D.DeployDriver):
        async def bulk_deploy(self, deploy_cmds, args, progress_bar=None):
            raise NotImplementedError()

        def apply_deploy_rulebook(self, hw, cmd_paths, do_finalize=True, do_commit=True):
            return D.apply_deploy_rulebook(hw, cmd_paths, do_finalize, do_commit)

        def build_configuration_cmdlist(self, hw, do_finalize=True, do_commit=True):
            return CommandList(), CommandList()

        def build_exit_cmdlist(self, hw):
            return CommandList()
    D.driver_connector._classes = [Driver]
    DF.file_differ_connector._classes = [DF.UnifiedFileDiffer]
    DF.file_differ_connector._cache = None
    _INSTALLED = True


def _make_gens(case):
    from annet.generators.entire import Entire
    out = []
    for i, g in enumerate(case["gens"]):
        def mk(g=g, i=i):
            class G(Entire):
                prio = g["prio"]

                def path(self, device):
                    return g["path"]

                def run(self, device):
                    w = g["words"]
                    if g["kind"] == "str":
                        return "\n".join(w)
                    if g["kind"] == "tuple":
                        return (tuple(w),)
                    return self._multi()

                def _multi(self):
                    for x in g["words"]:
                        yield x

                def reload(self, device):
                    return g["reload"]

                def is_safe(self, device):
                    return g["safe"]
            G.__name__ = "G%d" % i
            if g.get("inherited"):
                # a site flavour of a generator: derived from it without repeating anything (priority, path, reload are inherited)
                G = type("G%dFlavour" % i, (G,), {"__doc__": "flavour"})
                if g["inherited"] == 2:
                    G = type("G%dFlavourB" % i, (G,), {})
            return G(types.SimpleNamespace(flush_perf=lambda: {}))
        out.append(mk())
    return out


def check(case):
    from annet import cli_args
    from annet.annlib.netdev.views.hardware import HardwareView
    from annet.api import PCDeployerJob
    from annet.diff import pc_diff
    from annet.generators import run_file_generators
    from annet.types import OldNewResult
    from vf.model import sut
    _install()
    labels = []
    hw = HardwareView("PC", case["soft"])
    device = _Dev(hw)
    gens = _make_gens(case)
    specs = case["gens"]
    safe = case["acl_safe"]
    # ---- reference: content per path
    exp = {}
    for p in PATHS:
        c = [g for g in specs if g["path"] == p]
        if not c:
            continue
        if len(c) >= 2:
            labels.append("competing-generators")
        win = max(c, key=lambda g: g["prio"])
        rel = win["reload"] or ""
        if case["soft"].startswith("Cumulus"):
            rel = "\n".join(([rel] if rel else []) + ["/usr/bin/etckeeper commitreload %s" % p])
        if not safe or win["safe"]:
            exp[p] = (_output(win), rel)
        elif safe:
            labels.append("unsafe-winner-hidden")
    det = {"expected_new_files": exp}
    n = len(gens)
    orders = list(itertools.permutations(range(n))) if n <= 5 else [tuple(range(n))]
    for oi, order in enumerate(orders):
        # the production caller hands over a one-shot iterator (DeviceGenerators.file_gens): every third order does the same
        glist = [gens[i] for i in order]
        res = run_file_generators(iter(glist) if oi % 3 == 1 else glist, device)
        got = res.new_files(safe)
        if got != exp:
            raise Violation("winner-depends-on-order" if any(run_file_generators([gens[i] for i in o], device).new_files(safe) == exp for o in orders[:6])
                            else "wrong-winner",
                            f"listing order {order}: new_files() = {got!r}, expected {exp!r} (max priority per path, safe filter after selection)", det)
    labels.append("n:orders:%d" % len(orders))
    new_files = exp
    # ---- old files
    old = {}
    for p, mode in case["old"].items():
        content = new_files.get(p, ("zz", ""))[0]
        if mode == "equal":
            old[p] = content
        elif mode == "different":
            old[p] = content + "\nextra"
        elif mode == "terminator":
            old[p] = content + "\n"
        elif mode == "empty":
            old[p] = ""
        elif mode == "trailing-blank":
            # same words, but a line ends with a blank / tab on one side only (YAML block scalars, markdown hard breaks)
            ls = content.split("\n")
            ls[0] = ls[0].rstrip() + (" " if ls[0] == ls[0].rstrip() else "")
            old[p] = "\n".join(ls)
        elif mode == "blank-line":
            old[p] = content + "\n  "
    changed = {p for p in new_files if old.get(p) != new_files[p][0]}
    unchanged = set(new_files) - changed
    term_only = {p for p in changed if old.get(p) is not None and old[p].splitlines() == new_files[p][0].splitlines()
                 or (old.get(p) is None and new_files[p][0] == "")}
    if changed and unchanged:
        labels.append("changed+unchanged")
    if term_only:
        labels.append("terminator-only-difference")
    if any(case["old"].get(p) in ("trailing-blank", "blank-line") for p in changed):
        labels.append("whitespace-only-difference")
    if any(g["prio"] < 0 for g in specs):
        labels.append("negative-prio")
    # ---- deploy job
    flag = {"yes": cli_args.EntireReloadFlag.yes, "no": cli_args.EntireReloadFlag.no, "force": cli_args.EntireReloadFlag.force}[case["reload"]]
    # the options object as the command line builds it: the real option declarations, parsed by argparse and handed to
    # ArgGroup.construct_from (how every annet command gets its options); 'yes' is also spelled as the bare flag and as the default
    import argparse

    class _Opts(cli_args.ArgGroup):
        entire_reload = cli_args.opt_entire_reload
        acl_safe = cli_args.opt_acl_safe
    parser = argparse.ArgumentParser()
    _Opts.attach(parser)
    argv = ["--entire-reload", case["reload"]]
    if case["reload"] == "yes":
        argv = [["--entire-reload", "yes"], ["--entire-reload"], []][len(specs) % 3]
    args = _Opts.construct_from(parser.parse_args(argv + (["--acl-safe"] if safe else [])))
    if args.entire_reload is not flag or bool(args.acl_safe) != bool(safe):
        raise Violation("options", f"command line {argv!r} gives entire_reload={args.entire_reload!r} (asked for {flag!r}), acl_safe={args.acl_safe!r}",
                        {"argv": argv})
    job = PCDeployerJob(device, args)
    # what the gen step hands over: the complete plan and the safe plan (the latter legitimately empty when no winner is safe)
    full_plan = run_file_generators(list(gens), device).new_files(False)
    onr = OldNewResult(device=device, old_files=dict(old), new_files=dict(full_plan), safe_new_files=dict(new_files) if safe else {})
    if safe and not new_files and full_plan:
        labels.append("safe-plan-empty")
    job.parse_result(onr)
    dc = job.deploy_cmds.get(device)
    force = case["reload"] == "force"
    want_upload = {p: new_files[p][0].encode() for p in new_files if p in changed or force}
    got_upload = dict(dc["files"]) if dc else {}
    det.update({"old": old, "uploaded": {k: v.decode() for k, v in got_upload.items()}, "want": {k: v.decode() for k, v in want_upload.items()},
                "terminator_only": sorted(term_only)})
    if got_upload != want_upload:
        missing = sorted(set(want_upload) - set(got_upload))
        det["missing_all_terminator_only"] = bool(missing) and set(missing) <= term_only and set(got_upload) <= set(want_upload) and all(
            got_upload[k] == want_upload[k] for k in got_upload)
        v = Violation("upload-set", f"uploaded {sorted(got_upload)}, expected {sorted(want_upload)} (old != new or force); "
                      f"old={ {p: old.get(p) for p in new_files} } new={ {p: new_files[p][0] for p in new_files} }"[:800], det)
        labels.append(known_or_raise(PID, v))
        # the listed class (contents differing only in line terminators / absent vs empty) is excluded from what follows
        want_upload = {p: c for p, c in want_upload.items() if p in got_upload}
    if dc:
        cmds = dc["cmds"]
        if case["reload"] == "no":
            if any(cmds.get(p) for p in cmds):
                raise Violation("reload-when-disabled", f"reload commands attached although reloads are disabled: {cmds!r}", det)
        else:
            for p in want_upload:
                if p not in cmds:
                    raise Violation("reload-missing", f"no reload entry for uploaded file {p}", det)
                if new_files[p][1].encode() not in cmds[p]:
                    raise Violation("reload-wrong", f"reload entry for {p} is {cmds[p]!r}, generator's reload is {new_files[p][1]!r}", det)
            if set(cmds) - set(want_upload):
                raise Violation("reload-for-unchanged", f"reload entry for files that are not uploaded: {sorted(set(cmds) - set(want_upload))}", det)
    # ---- shown diff
    shown = {f.label.split("h1/", 1)[1] if "h1/" in f.label else f.label for f in pc_diff(hw, "h1", dict(old), dict(new_files))}
    shown = {("/" + s.lstrip("/")) for s in shown}
    if shown != changed:
        det["diff_missing_all_terminator_only"] = (changed - shown) <= term_only and shown <= changed
        labels.append(known_or_raise(PID, Violation("diff-emptiness", f"pc_diff shows {sorted(shown)}, contents differ for {sorted(changed)}", det)))
    return labels


def nontrivial(labels):
    return "competing-generators" in labels and "changed+unchanged" in labels
