"""C16 - file mode and device mode compute the same diff and the same patch."""
import os
import shutil
import types
from collections import OrderedDict as odict

from hypothesis import strategies as st

from vf.core.runner import VERIF, Violation
from vf.model import rulelang as RL
from vf.model.rnd import urandoms

PID = "C16"
LEVEL = "exploration"
BUDGET = {"quick": 3200, "thorough": 80000}
SHARDS = 16
MODELS = ["Huawei CE6870", "Huawei NE40E", "Huawei S6720", "Cisco Catalyst 2960", "Cisco Nexus 3132", "Cisco ASR 9000", "Arista DCS-7050",
          "Aruba AP-325", "B4com CS4100", "Juniper MX960", "Nokia 7750", "RouterOS CCR1036", "H3C S6850", "PC"]
RULE = ("Enumerated: the 192 shipped (before,after) pairs, and cross products (before_i, after_j) within one test file (quick: up to 6 per "
        "file; thorough: all within a hardware model). Generated: Hypothesis draws a hardware model and trees of rows synthesised from the "
        "shipped patching rules of that model (literals copied, placeholders filled, several lines per key-less rule so that lists are "
        "partially changed), new = mutation of old. Both front ends run with no ACL and implicit defaults off: device front end "
        "_diff_and_patch, file front end _read_old_new_diff_patch, and (for a third of the cases) the real file_patch_worker / "
        "file_diff_worker on files written with formatter.join. Oracle (differential): command paths equal as sequences, stripped diffs "
        "equal, file-diff text equals gen_pre_as_diff of the device diff; 'both raise the same error' is agreement. "
        "Non-trivial: patch non-empty and some unchanged row shares a (rule,key) bucket with a changed row.")
ASSUMPTIONS = [
    "the two front ends are compared with each other (differential); neither is checked against an external truth here (C01/C11 do that)",
    "temporary files live under /verif/.scratch/<pid> and are removed after each case",
]
FLOORS = {}


def enumerate_cases(tier, shard, nshards):
    from vf.model import corpus
    ss = corpus.samples()
    idx = 0
    for i, s in enumerate(ss):
        idx += 1
        if idx % nshards == shard:
            yield {"enum": True, "kind": "corpus", "i": i, "j": i, "name": s["name"]}
    byfile = {}
    for i, s in enumerate(ss):
        key = s["name"].split(" #")[0] if tier == "quick" else s["model"]
        byfile.setdefault(key, []).append(i)
    for key, idxs in byfile.items():
        pairs = [(a, b) for a in idxs for b in idxs if a != b]
        if tier == "quick":
            pairs = pairs[:6]
        for a, b in pairs:
            idx += 1
            if idx % nshards == shard:
                yield {"enum": True, "kind": "corpus", "i": a, "j": b, "name": "%s x %s" % (ss[a]["name"], ss[b]["name"])}


def _gen_from(rnd):
    from annet.annlib.netdev.views.hardware import HardwareView
    from annet.rulebook import get_rulebook
    from vf.model import shiprows, sut
    model = rnd.choice(MODELS)
    rb = get_rulebook(HardwareView(model, ""))
    old = shiprows.gen_tree(rnd, rb["patching"])
    new = shiprows.mutate(rnd, rb["patching"], old)
    old, new = RL.plain(old), RL.plain(new)
    files = rnd.chance(33)
    if rnd.chance(20) and old:
        # a small difference only: one top-level line or block disappears, possibly emptied first (differences for which the
        # rulebook logic emits no command at all - permanent lines, ignored changes - are differences all the same)
        new = dict(old)
        victim = rnd.choice(sorted(new))
        if rnd.chance(50):
            old = dict(old, **{victim: {}})
        del new[victim]
        files = rnd.chance(70)
    return {"kind": "gen", "model": model, "old": old, "new": new, "files": files}


@st.composite
def _cases(draw):
    return _gen_from(draw(urandoms()))


def fuzz_decode(fdp):
    """coverage-guided tier: the same generator driven by fuzzer-chosen bytes (vf/core/fuzz_target.py)"""
    from vf.model.rnd import FdpRandom
    return _gen_from(FdpRandom(fdp))

def strategy(tier):
    return _cases()


def _plain_diff(d):
    return [(str(op), row, _plain_diff(ch)) for op, row, ch, _ in d]


def _shared_bucket(diff):
    """an unchanged row shares a (rule,key) bucket with a changed row somewhere"""
    from annet.annlib.patching import make_pre
    def walk(pre):
        for raw, content in pre.items():
            for key, ops in content["items"].items():
                ch = sum(len(v) for k, v in ops.items() if str(k) != "unchanged")
                if ops.get(_unch) and ch:
                    return True
                for k, v in ops.items():
                    for it in v:
                        if walk(it["children"]):
                            return True
        return False
    from annet.annlib.types import Op
    _unch = Op.UNCHANGED
    return walk(make_pre(diff))


def check(case):
    from annet.annlib.diff import gen_pre_as_diff
    from annet.annlib.netdev.views.hardware import HardwareView
    from annet.annlib.patching import make_diff, make_pre, strip_unchanged
    from annet.api import _diff_and_patch, _read_old_new_diff_patch, file_diff_worker, file_patch_worker
    from annet.rulebook import get_rulebook
    from vf.model import corpus, sut
    if case["kind"] == "corpus":
        ss = corpus.samples()
        a, b = ss[case["i"]], ss[case["j"]]
        model, old, new = a["model"], a["old"], b["new"]
        labels = ["corpus" if case["i"] == case["j"] else "corpus-cross"]
    else:
        model, old, new = case["model"], RL.to_odict(case["old"]), RL.to_odict(case["new"])
        labels = ["gen"]
    hw = HardwareView(model, "")
    vendor = sut.registry().match(hw).NAME
    labels.append("vendor:" + vendor)
    fmt = sut.registry().match(hw).make_formatter(indent="")

    def run(fn):
        try:
            return ("ok",) + fn()
        except Exception as e:  # differential: the same error on both sides is agreement
            return ("raise", type(e).__name__, str(e)[:200])

    def dev():
        d, pt = _diff_and_patch(sut.Dev(hw), old, new, None, None, False)
        return _plain_diff(d), [list(p) for p in fmt.cmd_paths(pt).keys()]

    def fil():
        _, d, pre, pt = _read_old_new_diff_patch(old, new, hw, False)
        return _plain_diff(d), [list(p) for p in fmt.cmd_paths(pt).keys()]

    rd, rf = run(dev), run(fil)
    det = {"model": model, "device": rd, "file": rf}
    if rd[0] != rf[0]:
        raise Violation("one-side-raises", f"{model}: device front end {rd[0]} {rd[1:] if rd[0]=='raise' else ''}, file front end {rf[0]} {rf[1:] if rf[0]=='raise' else ''}", det)
    if rd[0] == "raise":
        if rd[1] != rf[1]:
            raise Violation("different-errors", f"{model}: {rd[1:]} vs {rf[1:]}", det)
        return labels + ["both-raise"]
    if rd[2] != rf[2]:
        only_f = [p for p in rf[2] if p not in rd[2]]
        only_d = [p for p in rd[2] if p not in rf[2]]
        raise Violation("patch-differs", f"{model}: file front end and device front end give different command streams; only in file mode: "
                        f"{only_f[:4]}; only in device mode: {only_d[:4]}"[:800], det)
    if rd[1] != rf[1]:
        raise Violation("diff-differs", f"{model}: stripped diffs differ between the front ends", det)
    if rd[2]:
        labels.append("patch-nonempty")
        try:
            if _shared_bucket(make_diff(old, new, get_rulebook(hw), [])):
                labels.append("shared-bucket")
        except Exception:
            pass
    # the real file workers on real files
    if case.get("files") or (case["kind"] == "corpus" and case["i"] == case["j"]):
        jf = sut.registry().match(hw).make_formatter()
        d = os.path.join(VERIF, ".scratch", "c16-%d" % os.getpid())
        os.makedirs(d, exist_ok=True)
        try:
            try:
                told, tnew = jf.join(old), jf.join(new)
                from annet.annlib.tabparser import parse_to_tree
                if RL.plain(parse_to_tree(told, jf.split)) != RL.plain(old) or RL.plain(parse_to_tree(tnew, jf.split)) != RL.plain(new):
                    return labels + ["text-roundtrip-n/a"]
            except Exception:
                return labels + ["text-roundtrip-n/a"]
            # directory mode ('annet file-diff OLD_DIR NEW_DIR'): two trees of cfgdumps as an archive unpacks them - equal time stamps,
            # and here also equal sizes (the shorter file ends with more blank lines); next to the pair a cfgdump that did not change
            # and one that exists on one side only.  What the enumerator hands to the workers is every name present on both sides.
            from annet.api import _read_old_new_cfgdumps
            dold, dnew = os.path.join(d, "old"), os.path.join(d, "new")
            os.makedirs(dold)
            os.makedirs(dnew)
            po, pn = os.path.join(dold, "dev1.cfg"), os.path.join(dnew, "dev1.cfg")
            n = max(len(told), len(tnew)) + 1
            open(po, "w").write(told + "\n" * (n - len(told)))
            open(pn, "w").write(tnew + "\n" * (n - len(tnew)))
            for dd_ in (dold, dnew):
                open(os.path.join(dd_, "same.cfg"), "w").write(told + "\n")
            open(os.path.join(dold, "gone.cfg"), "w").write(told + "\n")
            for dd_ in (dold, dnew):
                for fn in os.listdir(dd_):
                    os.utime(os.path.join(dd_, fn), (1700000000, 1700000000))
            pairs = sorted(_read_old_new_cfgdumps(types.SimpleNamespace(old=dold, new=dnew)))
            want_pairs = sorted((os.path.join(dold, fn), os.path.join(dnew, fn)) for fn in ("dev1.cfg", "same.cfg"))
            if pairs != want_pairs:
                raise Violation("directory-mode-pairs", f"{model}: directory mode hands {[os.path.basename(a) for a, b in pairs]!r} to the workers, "
                                f"both sides hold dev1.cfg (changed: {told != tnew}) and same.cfg", dict(det, old_text=told, new_text=tnew))
            # (--indent is a presentation option: '' is what the deployer asks for, a tab and four blanks are common)
            ind = ["  ", "", "    ", "\t"][(len(told) + 3 * len(tnew)) % 4]
            args = types.SimpleNamespace(hw=hw, add_comments=False, indent=ind, show_rules=False, no_color=True)
            got_patch = list(file_patch_worker((po, pn), args))
            got_diff = list(file_diff_worker((po, pn), args))
        finally:
            shutil.rmtree(d, ignore_errors=True)
        _, pt = _diff_and_patch(sut.Dev(hw), old, new, None, None, False)
        exp_patch = sut.registry().match(hw).make_formatter(indent=ind).patch(pt)
        labels.append("indent:%r" % ind)
        gp = got_patch[0][1] if got_patch else ""
        if gp != exp_patch:
            raise Violation("file-worker-patch", f"{model}: file_patch_worker output differs from the device-mode patch text", dict(det, got=gp, exp=exp_patch))
        dd, _ = _diff_and_patch(sut.Dev(hw), old, new, None, None, False)
        exp_diff = "".join(gen_pre_as_diff(make_pre(dd), False, ind, True))
        gd = got_diff[0][1] if got_diff else ""
        if gd != exp_diff:
            raise Violation("file-worker-diff", f"{model}: file_diff_worker text differs from gen_pre_as_diff of the device diff", dict(det, got=gd, exp=exp_diff))
        labels.append("real-file-workers")
    return labels


def nontrivial(labels):
    return "patch-nonempty" in labels and "shared-bucket" in labels
