"""C03 - the diff is a faithful, lossless description of old versus new."""
from collections import Counter, OrderedDict as odict

from hypothesis import strategies as st

from vf.core.runner import Violation
from vf.model import rulelang as RL
from vf.model.rnd import urandoms

PID = "C03"
LEVEL = "exploration"
BUDGET = {"quick": 12000, "thorough": 300000}
FORMATTERS = ["huawei", "cisco", "juniper", "nokia", "pc", "routeros", "ribbon"]
RULE = ("Hypothesis draws a rule tree (default / %ordered / '~ %rewrite %global' diff logics; any patch logic), a vendor for compilation, "
        "and a pair (old,new): new is a mutation of old (drop / same-key change / key change / deep-only change / fresh rows / reorder), "
        "an identical copy, or differs only deep inside one block; rows no rule knows on both sides. Oracles: projection laws "
        "(drop ADDED -> old|R, drop REMOVED -> new|R; new-side order exact for %ordered groups), op exactness, self-diff empty, "
        "validity predicate for %ordered groups, and two text views read back by an independent signed-text parser "
        "(formatter.diff for 7 vendor formatters; gen_pre_as_diff(make_pre(resort_diff(d)))). "
        "Non-trivial: diff entries at depth>=2 with >=2 different ops.")
ASSUMPTIONS = [
    "vendor-specific %diff_logic functions are out of scope (as the property states); rows avoid vendor syntax delimiters",
    "minimality of MOVED marks is not asserted (the property's iff is weakened to the validity predicate, see DESIGN.md C03)",
    "the old-side projection is compared as a set per block (MOVED rows are reported at their new position by construction)",
]
FLOORS = {"depth2-two-ops": 0.2, "ordered-group": 0.1}


def _gen_from(rnd):
    vendor = rnd.choice(["huawei", "cisco", "arista", "pc"])
    rules = RL.gen_rules(rnd)
    ctx = RL.Ctx(rules)
    old = RL.gen_tree(rnd, ctx, 0.3)
    x = rnd.random()
    if x < 0.08:
        new = old
    else:
        new = RL.mutate(rnd, ctx, old, 0.3)
    old, new = RL.plain(old), RL.plain(new)
    if rnd.chance(30):
        # several lines of one rule WITHOUT a key placeholder ('port trunk allow-pass vlan 10', '... vlan 20'): they share the key ()
        keyless = [r for r in rules if not r["children"] and not r.get("glob") and not any(t in ("*", "~") or t.startswith("*/") for t in r["toks"])
                   and not r.get("ordered") and not r.get("rewrite") and r.get("logic") is None and not r.get("icase")]
        if keyless:
            r = rnd.choice(keyless)
            head = " ".join(r["toks"])
            for side in (old, new):
                for _ in range(rnd.randint(0, 3)):
                    side.setdefault(head + " v" + str(rnd.randint(1, 5)), {})
    return {"vendor": vendor, "rules": rules, "old": old, "new": new}


@st.composite
def _cases(draw):
    return _gen_from(draw(urandoms()))


def fuzz_decode(fdp):
    """coverage-guided tier: the same generator driven by fuzzer-chosen bytes (vf/core/fuzz_target.py)"""
    from vf.model.rnd import FdpRandom
    return _gen_from(FdpRandom(fdp))

def strategy(tier):
    return _cases()


# ------------------------------------------------------------------ helpers
def proj(d, drop):
    out = odict()
    for op, row, ch, _ in d:
        if op == drop:
            continue
        out[row] = proj(ch, drop)
    return out


def restrict(t, ctx):
    out = odict()
    for row, ch in t.items():
        c = ctx.classify(row)
        if c is None:
            continue
        out[row] = restrict(ch, ctx.child(c[0], row))
    return out


def plain_diff(d):
    return [(str(op), row, plain_diff(ch)) for op, row, ch, _ in d]


def parse_signed(lines, indent, block_begin="", stmt_end="", block_end=""):
    """independent reader of the signed, indented text shown at deploy confirmation"""
    signmap = {"+": "added", "-": "removed", " ": "affected", ">": "moved"}
    root = []
    stack = [(-1, root)]
    for l in lines:
        sign, rest = l[0], l[2:]
        lvl = 0
        while indent and rest.startswith(indent):
            rest = rest[len(indent):]
            lvl += 1
        if block_end and rest == block_end:
            continue
        if block_begin and rest.endswith(block_begin):
            rest = rest[:-len(block_begin)]
        elif stmt_end and rest.endswith(stmt_end):
            rest = rest[:-len(stmt_end)]
        while stack[-1][0] >= lvl:
            stack.pop()
        node = (signmap[sign], rest, [])
        stack[-1][1].append(node)
        stack.append((lvl, node[2]))
    return root


def parse_pre_diff(lines, indent):
    signmap = {"+": "added", "-": "removed", " ": "affected", ">": "moved"}
    root = []
    stack = [(-1, root)]
    for l in lines:
        l = l.rstrip("\n")
        sign, rest = l[0], l[1:]
        lvl = 0
        while rest.startswith(indent + " ") or rest.startswith(indent + indent):
            rest = rest[len(indent):]
            lvl += 1
        assert rest.startswith(" "), l
        rest = rest[1:]
        while stack[-1][0] >= lvl:
            stack.pop()
        node = (signmap[sign], rest, [])
        stack[-1][1].append(node)
        stack.append((lvl, node[2]))
    return root


def multiset(d):
    return Counter((op, row, frozenset(multiset(ch).items())) for op, row, ch in d)


def _ops_check(d, old, new, path, labels, depth=0):
    ops_here = set()
    for op, row, ch, _ in d:
        op = str(op)
        ops_here.add(op)
        if op == "added" and row in old:
            raise Violation("op-inexact", f"{path + (row,)} reported added but present in old", {})
        if op == "removed" and row in new:
            raise Violation("op-inexact", f"{path + (row,)} reported removed but present in new", {})
        if op == "moved" and not (row in old and row in new):
            raise Violation("op-inexact", f"{path + (row,)} reported moved but not on both sides", {})
        _ops_check(ch, old.get(row, {}), new.get(row, {}), path + (row,), labels, depth + 1)
    if depth >= 1 and len(ops_here - {"unchanged"}) >= 2:
        labels.append("depth2-two-ops")


def _unchanged_check(d, old, new, ctx, path):
    """an entry reported unchanged hides nothing: no changed descendant, and its (known) subtree is the same on both sides"""
    for op, row, ch, _ in d:
        if str(op) == "unchanged":
            def walk(es, p):
                for o2, r2, c2, _m in es:
                    if str(o2) != "unchanged":
                        raise Violation("unchanged-hides-change", f"{p!r} is reported unchanged but contains ({o2}, {r2!r})", {})
                    walk(c2, p + (r2,))
            walk(ch, path + (row,))
            cl = ctx.classify(row)
            if cl is not None and row in old and row in new:
                if RL.plain(restrict(old[row], ctx.child(cl[0], row))) != RL.plain(restrict(new[row], ctx.child(cl[0], row))):
                    raise Violation("unchanged-hides-change", f"{path + (row,)!r} is reported unchanged but its content differs between old and new", {})
        cl = ctx.classify(row)
        if cl is not None:
            _unchanged_check(ch, old.get(row, {}), new.get(row, {}), ctx.child(cl[0], row), path + (row,))


def _ordered_check(d, old, new, ctx, path, labels):
    group = [(str(op), row) for op, row, ch, _ in d if (ctx.classify(row) or [{}])[0].get("ordered")]
    if group:
        labels.append("ordered-group")
        o_seq = [r for r in old if (ctx.classify(r) or [{}])[0].get("ordered")]
        n_seq = [r for r in new if (ctx.classify(r) or [{}])[0].get("ordered")]
        inplace = [r for op, r in group if op in ("affected", "unchanged")]
        if [r for r in o_seq if r in inplace] != inplace or [r for r in n_seq if r in inplace] != inplace:
            raise Violation("ordered-invalid", f"{path}: rows reported in place are not in the same relative order in old and new", {})
        changed = [r for op, r in group if op in ("added", "moved")]
        if inplace and changed:
            last_in = max(n_seq.index(r) for r in inplace)
            first_ch = min(n_seq.index(r) for r in changed)
            if first_ch < last_in:
                raise Violation("ordered-invalid", f"{path}: an added/moved row precedes a row reported in place", {})
        if o_seq == n_seq and any(op == "moved" for op, _ in group):
            raise Violation("ordered-invalid", f"{path}: identical sequences but a row is reported moved", {})
        if any(op == "moved" for op, _ in group):
            labels.append("ordered-moved")
        new_side = [r for op, r in group if op != "removed"]
        if new_side != n_seq:
            raise Violation("projection-new-order", f"{path}: dropping removed rows gives order {new_side}, new has {n_seq}", {})
    for op, row, ch, _ in d:
        cl = ctx.classify(row)
        if cl is not None:
            _ordered_check(ch, old.get(row, {}), new.get(row, {}), ctx.child(cl[0], row), path + (row,), labels)


def _find_rewrite_unchanged(d, old, new, ctx):
    """diagnosis for the recorded finding: an unchanged block whose children are governed by a %rewrite rule"""
    for op, row, ch, _ in d:
        cl = ctx.classify(row)
        if cl is None:
            continue
        r = cl[0]
        o, n = old.get(row), new.get(row)
        if o is not None and n is not None:
            if RL.is_block(r) and any(c.get("rewrite") for c in r["children"]) and RL.plain(o) == RL.plain(n) and o and not ch:
                return True
            if _find_rewrite_unchanged(ch, o, n, ctx.child(r, row)):
                return True
    return False


def _collapse_check(case, d, old, new, rb, vendor, ctx, labels, det):
    """the review text shown before a deploy groups devices with the same differences under one heading and prints ONE of their diffs
    (annet.diff.collapse_diffs): every device of a group must read back its own diff from that text.  Three devices: two with this
    diff, one whose old and new configurations have the contents of two sibling blocks of one rule exchanged (same lines, other nesting)"""
    import copy
    from annet.annlib.patching import make_diff, strip_unchanged
    from annet.diff import collapse_diffs
    from vf.model import sut
    hw = sut.hw_for(vendor)
    devs = [sut.Dev(hw, "dev%d" % i) for i in range(3)]

    def swapped(t):
        blocks = {}
        for row, ch in t.items():
            cl = ctx.classify(row)
            if cl is not None and RL.is_block(cl[0]):
                blocks.setdefault(cl[0]["id"], []).append(row)
        pair = next((rows[:2] for rows in blocks.values() if len(rows) >= 2), None)
        if pair is None:
            return None, None
        out = copy.deepcopy(t)
        out[pair[0]], out[pair[1]] = copy.deepcopy(t[pair[1]]), copy.deepcopy(t[pair[0]])
        return out, pair
    o2, pair = swapped(old)
    n2 = None
    if pair is not None and all(r in new for r in pair):
        n2 = copy.deepcopy(new)
        n2[pair[0]], n2[pair[1]] = copy.deepcopy(new[pair[1]]), copy.deepcopy(new[pair[0]])
    diffs = {devs[0]: strip_unchanged(copy.deepcopy(d)), devs[1]: strip_unchanged(make_diff(old, new, rb, []))}
    if n2 is not None:
        diffs[devs[2]] = strip_unchanged(make_diff(o2, n2, rb, []))
        labels.append("collapse-swapped-blocks")
    fmt = sut.registry().match(hw).make_formatter()
    own = {dev: list(fmt.diff(df)) for dev, df in diffs.items()}
    groups = collapse_diffs(diffs)
    members = [dev for g in groups for dev in g]
    if sorted(x.hostname for x in members) != sorted(x.hostname for x in diffs):
        raise Violation("collapse-groups", f"grouping the devices' diffs for review lists {[x.hostname for x in members]!r}, the devices are "
                        f"{[x.hostname for x in diffs]!r}", det)
    for g, shown in groups.items():
        text = list(fmt.diff(shown))
        for dev in g:
            if own[dev] != text:
                raise Violation("collapse-text", f"{dev.hostname} is listed under a diff shown as {text!r} but its own diff reads {own[dev]!r} "
                                f"(group {[x.hostname for x in g]!r})"[:900], det)
    if not any(devs[0] in g and devs[1] in g for g in groups):
        raise Violation("collapse-groups", "two devices with equal diffs are not shown together", det)


def check(case):
    from annet.annlib.diff import gen_pre_as_diff, resort_diff
    from annet.annlib.patching import make_diff, make_pre, strip_unchanged
    from annet.annlib.types import Op
    from vf.model import sut

    vendor, rules = case["vendor"], case["rules"]
    ctx = RL.Ctx(rules)
    rb = sut.make_rb(RL.rule_text(rules), vendor)
    old, new = RL.to_odict(case["old"]), RL.to_odict(case["new"])
    labels = []
    d = make_diff(old, new, rb, [])
    det = {"rulebook": RL.rule_text(rules), "diff": plain_diff(d)}
    po, pn = proj(d, Op.ADDED), proj(d, Op.REMOVED)
    ro, rn = restrict(old, ctx), restrict(new, ctx)
    if RL.plain(po) != RL.plain(ro) or RL.plain(pn) != RL.plain(rn):
        det["rewrite_unchanged_block"] = _find_rewrite_unchanged(d, old, new, ctx)
        side = "old" if RL.plain(po) != RL.plain(ro) else "new"
        raise Violation("projection", f"dropping {'added' if side == 'old' else 'removed'} lines from the diff does not give the {side} configuration "
                        f"(diff side {RL.plain(po if side == 'old' else pn)!r} vs {RL.plain(ro if side == 'old' else rn)!r})"[:700], det)
    _unchanged_check(d, old, new, ctx, ())
    _ops_check(d, old, new, (), labels)
    _ordered_check(d, old, new, ctx, (), labels)
    for x in (old, new):
        sd = strip_unchanged(make_diff(x, x, rb, []))
        if sd:
            raise Violation("self-diff", f"comparing a configuration with itself reports {plain_diff(sd)!r}"[:500], det)
    if RL.plain(old) == RL.plain(new):
        labels.append("identical")
    sd = strip_unchanged(d)
    want = plain_diff(sd)
    if want:
        labels.append("nonempty")
    for v in FORMATTERS:
        f = sut.formatter(v, indent="  ")
        back = parse_signed(f.diff(sd), f._indent, f._block_begin, f._statement_end, f._block_end)
        if back != want:
            raise Violation("text-view", f"{v} formatter.diff read back differs from the diff: {back!r} vs {want!r}"[:700], det)
    _collapse_check(case, d, old, new, rb, vendor, ctx, labels, det)
    lines = list(gen_pre_as_diff(make_pre(resort_diff(sd)), False, "  ", True))
    back = parse_pre_diff(lines, "  ")
    if multiset(back) != multiset(want):
        raise Violation("pre-view", f"`annet diff` view read back differs (as multisets per level): {back!r} vs {want!r}"[:700], det)
    return labels


def nontrivial(labels):
    return "depth2-two-ops" in labels
