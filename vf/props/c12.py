"""C12 - the worker pool returns exactly one result per submitted device."""
import os
import time

from hypothesis import strategies as st

from vf.core.runner import Violation

PID = "C12"
LEVEL = "exploration"
BUDGET = {"quick": 12000, "thorough": 600000}
RULE = ("Hypothesis draws (n<=12 ids, pool 1..4, max_tasks 1..5, failing ids, tolerate_fails, irun-or-run, consumer delays, "
        "an explicit schedule: list of <=160 choices among the runnable parties). The REAL Parallel.irun/pool_worker run under "
        "vf.model.poolsim (annet.parallel's mp/time names replaced by a baton scheduler inside the harness process); after the drawn "
        "prefix the schedule continues fair round-robin. Oracle: multiset(delivered ids)==submitted, payload(id)==f(id) or the task's "
        "exception, terminates within the step bound, tolerate_fails=False raises the failing task's error. A second phase runs the real "
        "multiprocessing pool over a (n, parallel, max_tasks, task delay, consumer delay) grid. "
        "Non-trivial: pool>=2 and some worker exited while a result was still queued, or a worker was restarted after retiring.")
ASSUMPTIONS = [
    "queue operations, process start/exit and join are the only scheduling points (the real code shares no other state between parties)",
    "no worker is killed from outside; task functions are deterministic",
    "the real-process grid can confirm a loss but never its absence (timing dependent); the deciding step is the controlled schedule search",
]
FLOORS = {"exit-with-queued-results": 0.15, "worker-restarted": 0.15}
ENUM_EXHAUSTIVE = True
EXHAUSTIVE_NOTE = ("systematic part (delay-bounded schedules): for each of 16 small configurations (n in {3,5} ids, pool 2, max_tasks in {1,2}, no "
                   "failing id / id 1 failing, prompt / slow consumer; irun, tolerant) the fair round-robin schedule and EVERY schedule that "
                   "deviates from it at <= d of the first T scheduling steps (by one or two places) are executed: d=1, T=60 quick (121 schedules per "
                   "configuration), d=2, T=40 thorough (3 201). Exhaustive over that family only; the generated part draws arbitrary schedule "
                   "prefixes, more ids, workers, failures, callbacks.")
DELAY_BOUND = {"quick": (1, 60), "thorough": (2, 40)}


def _delay_bounded(d, T):
    import itertools
    yield [-1] * T
    for k in range(1, d + 1):
        for pos in itertools.combinations(range(T), k):
            for devs in itertools.product((-2, -3), repeat=k):
                sch = [-1] * T
                for p_, v in zip(pos, devs):
                    sch[p_] = v
                yield sch


def enumerate_cases(tier, shard, nshards):
    d, T = DELAY_BOUND[tier]
    i = 0
    for n in (3, 5):
        for mt in (1, 2):
            for fail, delay in (([], 0), ([1], 0), ([], 1), ([1], 1)):
                for sch in _delay_bounded(d, T):
                    i += 1
                    if i % nshards != shard:
                        continue
                    yield {"enum": True, "n": n, "par": 2, "max_tasks": mt, "fail": fail, "unpicklable": [], "tolerate": True, "use_run": False,
                           "schedule": sch, "delays": [delay], "fail_kind": 0, "callback": None}


@st.composite
def _cases(draw):
    n = draw(st.integers(0, 12))
    big = draw(st.integers(0, 11)) == 0
    if big:
        n = draw(st.integers(21, 40))     # (a run over a few dozen devices, with the progress logger registered)
    par = draw(st.sampled_from([1, 2, 2, 2, 3, 3, 4]))
    mt = draw(st.integers(1, 5))
    nfail = draw(st.sampled_from([0, 0, 0, 1, 2]))
    fails = sorted(draw(st.sets(st.integers(0, max(0, n - 1)), max_size=nfail))) if n else []
    unp = sorted(draw(st.sets(st.integers(0, max(0, n - 1)), max_size=draw(st.sampled_from([0, 0, 0, 1, 2]))))) if n else []
    unp = [i for i in unp if i not in fails]
    gen_task = draw(st.integers(0, 3)) == 0
    if gen_task:
        unp = []
    tol = draw(st.sampled_from([True, True, True, False]))
    use_run = draw(st.sampled_from([False, False, False, True]))
    style = draw(st.integers(0, 3))
    if style == 0:
        # workers strongly preferred: the parent is starved (slow caller)
        sched = draw(st.lists(st.integers(0, 2), max_size=160))
    elif style == 1:
        sched = draw(st.lists(st.sampled_from([0, 1, 2, 3, 4, 5, 6, 7, 11]), max_size=160))
    else:
        sched = draw(st.lists(st.integers(0, 11), max_size=120))
    delays = draw(st.lists(st.integers(0, 6), min_size=1, max_size=4))
    return {"n": n, "par": par, "max_tasks": mt, "fail": fails, "unpicklable": unp, "tolerate": tol, "use_run": use_run,
            "schedule": sched, "delays": delays, "fail_kind": draw(st.integers(0, 8)),
            "callback": ({"progress_logger": True, "raise_for": []} if (big or draw(st.integers(0, 7)) == 0) else
                         {"in_thread": draw(st.booleans()), "exc_kind": draw(st.integers(0, 1)),
                          "raise_for": sorted(draw(st.sets(st.integers(0, max(0, n - 1)), max_size=2)))}
                         if (n and tol and not use_run and draw(st.integers(0, 3)) == 0) else None),
            "gen_task": gen_task,
            "partial_task": (not gen_task) and draw(st.integers(0, 5)) == 0}     # the task function is a functools.partial


def strategy(tier):
    return _cases()


def _judge(case, out, labels):
    n = case["n"]
    # a task whose result cannot be pickled is a failed task (the worker checks picklability so that the error is reported, not lost);
    # in the single-process path nothing is pickled and the value is delivered as is
    single = min(case["par"], n) <= 1
    unp = set(case.get("unpicklable", ())) if not single else set()
    from vf.model.poolsim import is_transient
    gt = bool(case.get("gen_task"))

    def val(i):
        return [i * 2 + 1] if gt else i * 2 + 1
    fk = case.get("fail_kind", 0)
    fails = {i for i in case["fail"] if not is_transient(fk + i)} | unp
    cbfail = set((case.get("callback") or {}).get("raise_for", ()))
    det = {"outcome": {k: out[k] for k in ("delivered", "raised", "bound", "steps", "run_result", "crashes")}}
    if out["crashes"]:
        raise Violation("worker-crash", f"worker body crashed: {out['crashes'][:2]}", det)
    if out["bound"]:
        raise Violation("no-termination", f"irun did not finish within {out['steps']} scheduling steps under a fair schedule", det)
    if out["leaked_threads"]:
        raise Violation("no-termination", "worker still blocked after irun returned and was told to stop", det)
    if case["use_run"]:
        if out["raised"] is not None:
            if case["tolerate"] or not fails:
                raise Violation("unexpected-raise", f"run() raised {out['raised']}", det)
            labels.append("raised-first-failure")
            return
        ok, bad = out["run_result"]
        if not case["tolerate"] and fails:
            raise Violation("failure-not-raised", "tolerate_fails=False but the failing task's error was not raised", det)
        exp_ok = {i: val(i) for i in range(n) if i not in fails}
        if single:
            ok = {k: (v["value"] if isinstance(v, dict) else v) for k, v in ok.items()}
        if ok != exp_ok or set(bad) != fails:
            raise Violation("lost-or-wrong-result", f"run() returned success={ok} fail={sorted(bad)}; expected success for {sorted(exp_ok)} fail for {sorted(fails)}", det)
        return
    ids = [d[0] for d in out["delivered"]]
    if len(ids) != len(set(ids)):
        raise Violation("duplicate-result", f"an id was delivered twice: {ids}", det)
    for (i, res, exc) in out["delivered"]:
        if i in cbfail:
            # the callback failed on this outcome: the id is still reported, as a failure (the callback's error or the task's own)
            if exc is None:
                raise Violation("wrong-payload", f"id {i}: a callback raised on its outcome, a failure outcome is expected, got result={res!r}", det)
        elif i in unp:
            if exc is None:
                raise Violation("wrong-payload", f"id {i}: its result cannot be pickled, a failure outcome is expected, got result={res!r}", det)
        elif single and i in set(case.get("unpicklable", ())):
            if exc is not None or not isinstance(res, dict) or res.get("value") != i * 2 + 1:
                raise Violation("wrong-payload", f"id {i}: got result={res!r} exc={exc}", det)
        elif i in fails:
            if exc is None or ("boom-%s" % i) not in str(exc):
                raise Violation("wrong-payload", f"id {i} should carry its task's exception, got result={res} exc={exc}", det)
        elif res != val(i) or exc is not None:
            raise Violation("wrong-payload", f"id {i}: got result={res} exc={exc}, expected {val(i)}", det)
    if out["raised"] is not None:
        if case["tolerate"] or not fails:
            raise Violation("unexpected-raise", f"irun raised {out['raised']}", det)
        if not any(("boom-%s" % i) in str(out["raised"][1]) for i in fails) and not unp:
            raise Violation("unexpected-raise", f"irun raised {out['raised']}, not a failing task's error", det)
        if not set(ids) <= set(range(n)):
            raise Violation("lost-or-wrong-result", f"unknown ids delivered {ids}", det)
        labels.append("raised-first-failure")
        return
    if not case["tolerate"] and fails:
        raise Violation("failure-not-raised", f"tolerate_fails=False but no error was raised; delivered {sorted(ids)}", det)
    if sorted(ids) != list(range(n)):
        missing = sorted(set(range(n)) - set(ids))
        raise Violation("lost-or-wrong-result", f"submitted {n} ids, delivered {len(ids)}; missing {missing}", det)


def check(case):
    from vf.model.poolsim import run_case
    if case.get("real"):
        return _check_real(case)
    out = run_case(case["n"], case["par"], case["max_tasks"], case["fail"], case["tolerate"],
                   case["schedule"], case["delays"], use_run=case["use_run"], unpicklable_ids=case.get("unpicklable", ()),
                   fail_kind=case.get("fail_kind", 0), callback=case.get("callback"), gen_task=bool(case.get("gen_task")), partial_task=bool(case.get("partial_task")))
    if (case.get("callback") or {}).get("progress_logger"):
        labels_cb = ["progress-logger-registered"]
    elif case.get("callback"):
        labels_cb = ["callback-registered"] + (["callback-raises"] if case["callback"]["raise_for"] else [])
    else:
        labels_cb = []
    if case.get("unpicklable"):
        labels_extra = ["unpicklable-result"]
    else:
        labels_extra = []
    labels = list(out["events"]) + labels_extra + labels_cb
    from vf.model.poolsim import is_transient as _tr
    if any(_tr(case.get("fail_kind", 0) + i) for i in case["fail"]):
        labels.append("transient-connection-drop")
    pool = min(case["par"], case["n"])
    labels.append("pool-%d" % pool)
    if out["restarts"]:
        labels.append("worker-restarted")
    if case["fail"]:
        labels.append("failing-task")
    if not case["tolerate"]:
        labels.append("intolerant")
    _judge(case, out, labels)
    return labels


def nontrivial(labels):
    return ("pool-0" not in labels and "pool-1" not in labels and
            ("exit-with-queued-results" in labels or "worker-restarted" in labels))


# ------------------------------------------------------------------ real processes (secondary)
def _task(x, delay, fails):
    if delay:
        time.sleep(delay)
    if x in fails:
        from vf.model.poolsim import task_error
        raise task_error(x, x)   # (id 1 fails in the grid below: a two-argument FileNotFoundError)
    return x * 2 + 1


def _check_real(case):
    import logging
    import annet.parallel as P
    logging.disable(logging.CRITICAL)
    n, fails = case["n"], tuple(case["fail"])
    pool = P.Parallel(_task, case["task_delay"], fails).tune(parallel=case["par"], max_tasks=case["max_tasks"])
    got = []
    for r in pool.irun(list(range(n))):
        got.append((r.device_id, r.result, None if r.exc is None else getattr(r.exc, "orig_exc_msg", repr(r.exc))))
        if case["consumer_delay"]:
            time.sleep(case["consumer_delay"])
    out = {"delivered": got, "raised": None, "bound": False, "steps": 0, "run_result": None, "crashes": [],
           "leaked_threads": 0}
    labels = ["real-process", "pool-%d" % min(case["par"], n)]
    _judge(dict(case, tolerate=True, use_run=False), out, labels)
    return labels


def extra_phase(tier, seed):
    """real multiprocessing pool over a grid; a lost/duplicated id here is a real execution"""
    import itertools
    from vf.core.runner import case_hash
    if tier == "quick":
        grid = [(6, 2, 25, 0, 0), (6, 2, 3, 0, 0), (17, 4, 3, 0, 0), (5, 8, 1, 0, 0.02), (2, 2, 25, 0, 0), (17, 8, 25, 0.005, 0)]
    else:
        grid = list(itertools.product([0, 1, 2, 5, 17, 40], [1, 2, 4, 8], [1, 3, 25], [0, 0.005], [0, 0.02, 0.3]))
        grid = [g for g in grid if not (g[0] >= 17 and g[4] >= 0.3)]
    ev = 0
    nt = []
    samples = []
    for (n, par, mt, td, cd) in grid:
        case = {"real": True, "n": n, "par": par, "max_tasks": mt, "fail": [1] if n > 3 else [], "task_delay": td,
                "consumer_delay": cd}
        try:
            check(case)
        except Violation as v:
            v.detail = dict(v.detail or {}, case=case)
            raise
        ev += 1
        if min(par, n) >= 2:
            nt.append(case_hash(case))
            if len(samples) < 1:
                samples.append({"case": case, "labels": ["real-process"]})
    return {"evaluations": ev, "nontrivial": nt, "labels": {"real-process": ev}, "samples": samples,
            "coverage": {"real_process_runs": ev}}
