"""C02 - a patch never touches configuration outside the generators' ACL."""
from hypothesis import strategies as st

from vf.core.runner import Violation
from vf.model import refacl as RA
from vf.model import rulelang as RL
from vf.model.devsim import SimError, apply
from vf.model.rnd import urandoms

PID = "C02"
LEVEL = "exploration"
BUDGET = {"quick": 8000, "thorough": 200000}
VENDORS = ["huawei", "cisco", "arista", "nexus", "h3c", "b4com", "pc"]
RULE = ("Hypothesis draws a rulebook (default / undo_redo / %ordered logics: they emit only the row or its negation), a vendor, device and "
        "target trees as in C01 (single step) with rows no ACL covers at every depth (next to and inside owned blocks), and 1..3 "
        "generator ACLs derived from the rule tree (subset of rules, generalised patterns, nested or '~ %global' bodies, %cant_delete=0/1, "
        "built-in default for 'interface'), merged through the production %generator_names tagging. _diff_and_patch runs with that ACL and "
        "the patch is executed on the device simulator. Oracle: (a) every command path is covered level by level by the reference ACL "
        "model (last element directly or as the negated form; block exits excepted); (b) every uncovered row of old whose ancestors "
        "survive is unchanged with its subtree; (c) a row covered only by not-deletable rules still has its (rule,key) on the device. "
        "Non-trivial: patch non-empty, old has an uncovered row at depth>=1, and old has a not-deletable row that new lacks.")
ASSUMPTIONS = [
    "logics that emit the row or its negation only (as the property states); device semantics as in C01 (vf/model/devsim.py)",
    "(c) is asserted for rows whose every matching ACL rule (all generators, local and inherited global) is not deletable - the property's "
    "'covered only by rules marked as not deletable'; rows with mixed rules are not asserted (the governing rule would be a specificity tie-break)",
    "ACL rules and config rows never start with the negation word; no %prio",
]
FLOORS = {"uncovered-nested": 0.2, "cant-delete-dropped": 0.1, "patch-nonempty": 0.5}


def keys_in(tree, ctx, acc=None):
    """rule id -> first-placeholder words seen in the tree (so that a concrete-key ACL rule really meets a row)"""
    acc = {} if acc is None else acc
    for row, ch in tree.items():
        cl = ctx.classify(row)
        if cl is None:
            continue
        r, key = cl
        if key:
            acc.setdefault(r["id"], []).append(key[0].split(" ")[0])
        keys_in(ch, ctx.child(r, row), acc)
    return acc


def acl_from(rnd, rules, skip=30, seen_keys=None):
    out = []
    for r in rules:
        if r.get("glob") or rnd.chance(skip):
            continue
        toks = list(r["toks"])
        if rnd.chance(20) and len(toks) > 1 and toks[-1] == "*":
            toks = toks[:-1] + ["~"]
        elif rnd.chance(20) and "*" in toks:
            # a rule for one concrete key: overlaps partially with another generator's wildcard rule for the same head
            present = (seen_keys or {}).get(r.get("id"), [])
            toks[toks.index("*")] = rnd.choice((present * 3 if present else RL.WORDS) + ["*/[a-z]+/", "*/[0-9]+/", "*/[a-z]+/"])
        if r["children"]:
            if r["children"][0].get("ordered"):
                ch = [RA.acl_rule(["rule", "~"])] if rnd.chance(70) else [RA.acl_rule(["~"], glob=True)]
            elif rnd.chance(25):
                ch = [RA.acl_rule(["~"], glob=True)]
            else:
                ch = acl_from(rnd, r["children"], seen_keys=seen_keys)
        else:
            ch = []
        out.append(RA.acl_rule(toks, ch, cd=rnd.choice([None, 0, 1, 1])))
    return out


def _gen_from(rnd):
    vendor = rnd.choice(VENDORS)
    rules = RL.gen_rules(rnd, heads=RL.HEADS + ["interface", "interfaces"], opts={"logics": ("common.undo_redo",), "rewrite": False})
    ctx = RL.Ctx(rules)
    old = RL.gen_tree(rnd, ctx)
    new = RL.mutate(rnd, ctx, old)
    acls = []
    seen = keys_in(old, ctx)
    for i in range(rnd.randint(1, 3)):
        a = acl_from(rnd, rules, seen_keys=seen) or (acl_from(rnd, rules, skip=0, seen_keys=seen) if i == 0 else [])
        if a:
            acls.append(["G%d" % i, a])
    old, new = RL.plain(old), RL.plain(new)
    if rnd.chance(12):
        # sibling blocks whose children rules have the same NAMES but different content: one generator owns '<fam>/rd' under every
        # 'ovlc *' block, another owns '<fam>/vt' under 'ovlc a' only; both blocks change rd and vt
        rules = rules + [RL.rule(["ovlc", "*"], [RL.rule(["fam"], [RL.rule(["rd", "*"]), RL.rule(["vt", "*"])])])]
        RL.assign_ids(rules)
        first, second = ("a", "b") if rnd.chance(70) else ("b", "a")
        for k in (first, second):
            old["ovlc " + k] = {"fam": {"rd 1": {}, "vt 1": {}}}
            new["ovlc " + k] = {"fam": {"rd 2": {}, "vt 2": {}}}
        acls = acls + [["GR", [RA.acl_rule(["ovlc", "*"], [RA.acl_rule(["fam"], [RA.acl_rule(["rd", "*"])])])]],
                       ["GV", [RA.acl_rule(["ovlc", "a"], [RA.acl_rule(["fam"], [RA.acl_rule(["vt", "~"])])])]]]
    return {"vendor": vendor, "rules": rules, "old": old, "new": new, "acls": acls,
            "acl_indents": [rnd.choice([0, 0, 4, 8]) for _ in acls], "acl_comments": rnd.choice([0, 0, 1, 2, 3]),
            # --filter-acl: a second ACL, applied to the diff after the generators' one (both must allow a change)
            "filter": acl_from(rnd, rules, skip=25, seen_keys=None) if rnd.chance(30) else None}


@st.composite
def _cases(draw):
    return _gen_from(draw(urandoms()))


def fuzz_decode(fdp):
    """coverage-guided tier: the same generator driven by fuzzer-chosen bytes (vf/core/fuzz_target.py)"""
    from vf.model.rnd import FdpRandom
    return _gen_from(FdpRandom(fdp))

def strategy(tier):
    return _cases()


def _get(t, path):
    for p in path:
        if t is None or p not in t:
            return None
        t = t[p]
    return t


def _walk(old, actx, path=()):
    """yield (path, covered, not_deletable) for every row of old; below an uncovered row everything is uncovered"""
    for row, ch in old.items():
        cov = actx.covered(row) if actx is not None else False
        yield path + (row,), cov, (actx.not_deletable(row) if cov else False)
        yield from _walk(ch, actx.child(row) if cov else None, path + (row,))


def _path_covered(p, actx, rev, exitw, old=None, ctx=None):
    cur_old, c = old, ctx
    for i, row in enumerate(p):
        last = i == len(p) - 1
        if last and exitw and row == exitw and i > 0:
            return True
        if actx.covered(row):
            actx = actx.child(row)
            if c is not None:
                cl = c.classify(row)
                c = c.child(cl[0], row) if cl is not None else None
            cur_old = cur_old.get(row) if cur_old is not None else None
            continue
        if last and row.startswith(rev + " ") and actx.covered(row[len(rev) + 1:]):
            return True
        if last and row.startswith(rev + " ") and cur_old is not None and c is not None:
            # an ACL filters the LINES of the diff; the removal command of a line may be shorter than the line (a rule without a key
            # placeholder: 'delta1 a' is removed by 'undo delta1'): covered if it removes a covered line of the old configuration
            ident = c.ident(row[len(rev) + 1:])
            if ident is not None and any(c.ident(r) == ident and actx.covered(r) for r in cur_old):
                return True
        return False
    return True


def _nocomment(text):
    """the combined ACL text without comment lines (they are tagged like any line, and skipped by the parser)"""
    return "".join(l + "\n" for l in text.split("\n") if l and not l.strip().startswith("#"))


def check(case):
    from annet.annlib.rbparser.acl import compile_acl_text
    from vf.model import sut
    vendor, rules = case["vendor"], case["rules"]
    labels = ["vendor:" + vendor, "generators-%d" % len(case["acls"])]
    if not case["acls"]:
        return labels + ["no-acl"]
    ctx = RL.Ctx(rules)
    rev, exitw = sut.vendor_words(vendor)
    rb = sut.make_rb(RL.rule_text(rules), vendor)
    named = [(n, a) for n, a in case["acls"]]
    # merged through the production path (RunGeneratorResult.acl_text), each generator's literal with its own base indentation
    atext = sut.production_acl_text(named, case.get("acl_indents"), case.get("acl_comments", 0))
    if _nocomment(atext) != RA.combined_text(named):
        raise Violation("acl-merge-text", "the combined ACL text differs from 'every line of every generator, dedented, tagged with its "
                        "generator name'", {"got": atext, "expected": RA.combined_text(named)})
    acl = compile_acl_text(atext, vendor)
    actx = RA.ACtx.top(named)
    old, new = RL.to_odict(case["old"]), RL.to_odict(case["new"])
    filt, fctx = None, None
    if case.get("filter"):
        ftext = RA.acl_text(case["filter"])
        filt = compile_acl_text(ftext, vendor)
        fctx = RA.ACtx.top([("filter", case["filter"])])
        labels.append("filter-acl")
    d, pt = sut.diff_and_patch(vendor, old, new, rb, acl=acl, filter_acl=filt)
    paths = sut.cmd_paths(vendor, pt)
    det = {"rulebook": RL.rule_text(rules), "acl": atext, "paths": paths, "filter_acl": RA.acl_text(case["filter"]) if case.get("filter") else None}
    if paths:
        labels.append("patch-nonempty")
    for p in paths:
        if not _path_covered(p, actx, rev, exitw, old, ctx):
            raise Violation("uncovered-command", f"command path {p!r} is not covered by the combined ACL", det)
        if fctx is not None and not _path_covered(p, fctx, rev, exitw, old, ctx):
            raise Violation("uncovered-command", f"command path {p!r} is not covered by the filter ACL", det)
    try:
        got = apply(paths, old, ctx, rev, exitw)
    except SimError as e:
        raise Violation("exec-error", str(e), det)
    det["device_after"] = RL.plain(got)
    for which, top_actx, path, cov, nd in [("the combined ACL", actx) + x for x in _walk(old, actx)] + \
            ([("the filter ACL", fctx) + x for x in _walk(old, fctx)] if fctx is not None else []):
        anc_ok = all(_get(got, path[:i]) is not None for i in range(1, len(path)))
        if not cov:
            if len(path) >= 2:
                labels.append("uncovered-nested")
            now = _get(got, path)
            if anc_ok and now is None:
                # the line's text is gone: not a violation if a COVERED command set the same (rule, key) to another value - the old
                # value (say a bare 'beta1') was not covered, the new one ('beta1 a') is, and on the device they are one setting
                c = ctx
                for b in path[:-1]:
                    c = c.child(c.classify(b)[0], b)
                ident = c.ident(path[-1])
                par = _get(got, path[:-1])
                a_par = top_actx
                for b in path[:-1]:
                    a_par = a_par.child(b)
                if ident is not None and par is not None and any(c.ident(r) == ident and a_par.covered(r) for r in par):
                    labels.append("uncovered-value-replaced-by-covered-one")
                    continue
            if anc_ok and (now is None or RL.plain(now) != RL.plain(_get(old, path))):
                raise Violation("foreign-row-changed", f"row {path!r} is covered by no rule of {which} but was changed/removed by the patch", det)
        elif nd:
            c = ctx
            for b in path[:-1]:
                c = c.child(c.classify(b)[0], b)
            ident = c.ident(path[-1])
            in_new = _get(new, path[:-1])
            lacks = in_new is None or not any(c.ident(r) == ident for r in in_new)
            if lacks:
                labels.append("cant-delete-dropped")
            if anc_ok:
                par = _get(got, path[:-1])
                if not any(c.ident(r) == ident for r in par):
                    raise Violation("cant-delete-removed", f"row {path!r} is covered only by not-deletable rules of {which} but is gone after the patch", det)
    return labels


def nontrivial(labels):
    return "patch-nonempty" in labels and "uncovered-nested" in labels and "cant-delete-dropped" in labels
