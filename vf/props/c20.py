"""C20 - results are independent of processing history and inputs are left unmodified."""
import json
import multiprocessing as mp
import os
import random
import shutil

from hypothesis import strategies as st

from vf.core.runner import VERIF, Violation, case_hash
from vf.model import rulelang as RL

PID = "C20"
LEVEL = "exploration"
BUDGET = {"quick": 400, "thorough": 20000}
RULE = ("A job pool is built deterministically from VERIF_SEED: the shipped corpus pairs (their own hardware and shipped rulebooks) and "
        "synthetic jobs over a few shared synthetic rulebooks (rules without catch-all so unknown rows exist, %logic=common.default_instead_undo, "
        "a verification-side logic that mutates its rule argument non-idempotently, comments on/off, shared ACL texts). Phase 1 (prepare): "
        "every job's result (stripped diff, command paths, ordered config) is computed in a FRESH interpreter (spawn, one job per "
        "process). Phase 2: Hypothesis draws sequences of <=12 job indices (repeats, vendor interleavings, shared compiled ACL objects) "
        "executed in one long-lived process (the shard process itself also keeps the history of all earlier cases); phase 3: short sequences "
        "from cold interpreters and every job alone in new interpreters started with other string-hash seeds. Oracle: every result "
        "equals the fresh-process result; canonical snapshots of old, new and the compiled rulebook before a call equal those after it; "
        "a repeated job gives the same answer. Non-trivial: the sequence visits >=2 vendors and repeats a (hardware, rulebook) with a "
        "different job in between.")
ASSUMPTIONS = [
    "compiled ACL objects are not snapshot-compared (their scratch 'match' field may change); only result equality under reuse is required",
    "fresh-process baselines are produced by the same code under test; the differential is history vs no history",
]
FLOORS = {"two-vendors+repeat": 0.3}

OWN_TIME_LIMIT = True    # jobs are timed one by one below (the runner's per-case limit is not used)
JOB_TIME_LIMIT = 15.0   # seconds per job (normal jobs take milliseconds)
N_SYN = {"quick": 60, "thorough": 300}
N_CORPUS = {"quick": 90, "thorough": 192}
_RB_TEXTS = None


def _provider():
    import annet.rulebook as R
    cur = R.rulebook_provider_connector._classes
    if cur and getattr(cur[0], "_vf_c20", False):
        return

    class P(R.DefaultRulebookProvider):
        _vf_c20 = True
        root_modules = ("annet.rulebook", "vf.rbx")
    R.rulebook_provider_connector._classes = [P]
    R.rulebook_provider_connector._cache = None


ORDER_HW = ["Huawei CE6870", "Huawei NE40E", "Cisco Catalyst 2960", "Cisco Nexus 9316", "Cisco ASR 9000", "Arista DCS-7050", "B4com CS4100",
            "H3C S6850", "Aruba AP-325"]
ORDER_WORDS = ["Eth1", "Bundle-Ether1", "Bundle-Ether1.100", "GE1/0/1", "GE1/0/1.100", "Vlanif100", "Loopback0", "10", "100", "ud", "x",
               "vpn1", "10.0.0.1", "unicast", "ipv4", "permit", "P1", "default"]


def _order_tree(rnd, ordering, rev, depth=0):
    """rows instantiated from the lines of a shipped ordering rulebook (plain and negated), one level of children"""
    from vf.model import shiprows as SR
    t = {}
    for raw, rule in ordering.items():
        toks = SR.rule_tokens(raw)
        if toks is None or rule["attrs"]["order_reverse"]:
            continue
        for _ in range(2):
            w = []
            for tk in toks:
                if tk == "*":
                    w.append(rnd.choice(ORDER_WORDS))
                elif tk == "~":
                    w += [rnd.choice(ORDER_WORDS) for _ in range(rnd.randint(1, 2))]
                elif tk.startswith("*/"):
                    ok = [c for c in ORDER_WORDS + SR.CAND if SR._full(tk[2:-1], c)]
                    if not ok:
                        w = None
                        break
                    w.append(rnd.choice(ok))
                else:
                    w.append(tk)
            if not w:
                continue
            if toks[-1] != "~" and rnd.random() < 0.7:
                w += [rnd.choice(ORDER_WORDS) for _ in range(rnd.randint(1, 2))]   # ordering rules are prefixes of real lines
            row = " ".join(w)
            if not rule["attrs"]["direct_regexp"].match(row):
                continue
            if rnd.random() < 0.45 and not row.startswith(rev + " "):
                row = rev + " " + row
            elif row.startswith(rev + " ") and rnd.random() < 0.45:
                row = row[len(rev) + 1:]
            ch = {}
            if depth == 0 and rule["children"] and not row.startswith(rev + " "):
                ch = _order_tree(rnd, rule["children"], rev, 1)
            t.setdefault(row, ch)
    items = list(t.items())
    rnd.shuffle(items)
    return dict(items)


_POOLS = {}


def _pool_path(tier, seed):
    return os.path.join(VERIF, ".scratch", "c20-pool-%s-%d.json" % (tier, seed))


def _pool(tier, seed):
    """the job pool of this run: built once by prepare() in the parent and read from a file everywhere else - building it renders shipped
    rulebooks, and a worker or baseline process must not have compiled anything before its first job"""
    key = (tier, seed)
    if key not in _POOLS:
        if not os.path.exists(_pool_path(tier, seed)):
            _write_pool(tier, seed)
        with open(_pool_path(tier, seed)) as f:
            _POOLS[key] = json.load(f)
    return _POOLS[key]


def _write_pool(tier, seed):
    jobs = _build_pool(tier, seed)
    os.makedirs(os.path.dirname(_pool_path(tier, seed)), exist_ok=True)
    tmp = _pool_path(tier, seed) + ".tmp%d" % os.getpid()
    with open(tmp, "w") as f:
        json.dump(jobs, f)
    os.replace(tmp, _pool_path(tier, seed))
    _POOLS[(tier, seed)] = json.loads(json.dumps(jobs))


def _build_pool(tier, seed):
    """list of job dicts (JSON-able), a pure function of (tier, seed) and the tree under test"""
    from vf.model import corpus
    jobs = []
    # configurations full of rows (plain and negated) that the SHIPPED ordering rulebooks of several vendors speak about: the same rule
    # texts occur in several vendors' *.order files, near-ties between overlapping ordering rules are common there
    from annet.annlib.netdev.views.hardware import HardwareView
    from annet.rulebook import get_rulebook
    from vf.model import sut
    _provider()
    # VLAN-list jobs over the shipped cisco / nexus / huawei rulebooks (list lines split over several rows, named blocks): the list
    # logics parse and combine rows, which is where per-row caches and shared accumulators would live
    for j in range(24 if tier == "quick" else 80):
        rnd = random.Random("vlan-%d-%d" % (seed, j))
        model = rnd.choice(["Cisco Catalyst 2960", "Cisco Nexus 3132", "Huawei CE6870"])

        def side():
            ids = sorted(rnd.sample(range(2, 31), rnd.randint(0, 8)))
            t = {}
            if model.startswith("Huawei"):
                for chunk in (ids[:len(ids) // 2], ids[len(ids) // 2:]):
                    if chunk:
                        t["vlan batch " + " ".join(map(str, chunk))] = {}
            else:
                blocks = set(rnd.sample(ids, min(len(ids), rnd.randint(0, 2))))
                for v in ids:
                    if v in blocks:
                        t["vlan %d" % v] = {"name v%d" % v: {}}
                rest = [v for v in ids if v not in blocks]
                for chunk in (rest[:len(rest) // 2], rest[len(rest) // 2:]):
                    if chunk:
                        t["vlan " + ",".join(map(str, chunk))] = {}
                trunk = sorted(rnd.sample(range(2, 31), rnd.randint(1, 6)))
                t["interface GigabitEthernet0/1" if "Catalyst" in model else "interface Ethernet1/1"] = dict(
                    [("switchport trunk allowed vlan " + ",".join(map(str, trunk[:3])), {})] +
                    ([("switchport trunk allowed vlan add " + ",".join(map(str, trunk[3:])), {})] if trunk[3:] else []))
            return t
        jobs.append({"kind": "vlan", "model": model, "old": side(), "new": side()})
    # keyword-list settings of the shipped huawei rulebook (a line holds a SET of keywords, the vendor logic combines the lines of both
    # sides into one): the same shape as the VLAN lists, over words instead of numbers
    for j in range(10 if tier == "quick" else 30):
        rnd = random.Random("kwset-%d-%d" % (seed, j))

        def kw_side():
            t = {"sysname r%d" % rnd.randint(1, 3): {}}
            x = rnd.random()
            if x < 0.25:
                t["snmp-agent sys-info version all"] = {}
            elif x < 0.9:
                t["snmp-agent sys-info version " + " ".join(rnd.sample(["v1", "v2c", "v3"], rnd.randint(1, 2)))] = {}
            return t
        jobs.append({"kind": "vlan", "model": "Huawei CE6870", "old": kw_side(), "new": kw_side()})
    for m in ORDER_HW:
        hw = HardwareView(m, None)
        rb = get_rulebook(hw)
        rev = sut.registry()[hw.vendor].reverse
        for v in range(4):
            rnd = random.Random("order-%d-%s-%d" % (seed, m, v))
            jobs.append({"kind": "order", "model": m, "new": _order_tree(rnd, rb["ordering"], rev)})
    ss = corpus.samples()
    step = max(1, len(ss) // N_CORPUS[tier])
    for i in range(0, len(ss), step):
        jobs.append({"kind": "corpus", "i": i})
    # a few shared synthetic rulebooks
    rbs = []
    for k in range(5):
        rnd = random.Random("rb-%d-%d" % (seed, k))
        rules = RL.gen_rules(rnd)
        # sprinkle the special logics on leaf rules
        def sprinkle(rs):
            for r in rs:
                if not r["children"] and r.get("logic") is None and not r.get("ordered") and not r.get("rewrite"):
                    r["logic"] = rnd.choice([None, "hist.mutating", "hist.mutating", "common.default_instead_undo"])
                sprinkle(r["children"])
        sprinkle(rules)
        rbs.append(rules)
    acls = [None, None, "alpha ~\nbeta ~\ngamma ~ %global\n", "~ %global\n"]
    # per synthetic rulebook: merged generator ACLs with partially overlapping block rules that share child rule texts and differ in
    # %cant_delete (compiled once per text and shared by all jobs using it - the lru_cache'd object is what history could corrupt)
    from vf.model import refacl as RA
    from vf.props.c02 import acl_from

    class _R:   # URandom-compatible facade over random.Random
        def __init__(self, r): self.r = r
        def random(self): return self.r.random()
        def randint(self, a, b): return self.r.randint(a, b)
        def choice(self, seq): return self.r.choice(seq)
        def sample(self, seq, k): return self.r.sample(list(seq), k)
        def shuffle(self, l): self.r.shuffle(l)
        def chance(self, p): return self.r.randint(0, 99) < p
    rb_acls = []
    for k, rules in enumerate(rbs):
        texts = []
        for v in range(2):
            rnd = _R(random.Random("acl-%d-%d-%d" % (seed, k, v)))
            named = []
            for g in range(2):
                a = acl_from(rnd, rules, skip=10)
                if a:
                    named.append(("G%d" % g, a))
            if named:
                texts.append(RA.combined_text(named))

        # a deliberately overlapping pair of generators: G0 owns every block through its wildcard rule and protects the children
        # (%cant_delete=1), G1 owns the letter-keyed blocks through a word-regex rule with deletable children of the same texts
        def owner(rs, cd, special):
            out = []
            for r in rs:
                if r.get("glob"):
                    continue
                toks = list(r["toks"])
                if special and "*" in toks and r["children"]:
                    toks[toks.index("*")] = "*/[a-z]+/"
                elif special and r["children"]:
                    continue
                ch = owner(r["children"], cd, False) if r["children"] else []
                if r["children"] and r["children"][0].get("rewrite"):
                    ch = [RA.acl_rule(["~"], glob=True)]
                out.append(RA.acl_rule(toks, ch, cd=cd if not r["children"] else 0))
            return out
        g0, g1 = owner(rules, 1, False), owner(rules, 0, True)
        if g0 and g1:
            texts.append(RA.combined_text([("G0", g0), ("G1", g1)]))
            texts.append(texts[-1])
        rb_acls.append(texts)
    for j in range(N_SYN[tier]):
        rnd = random.Random("job-%d-%d" % (seed, j))
        k = rnd.randrange(len(rbs))
        ctx = RL.Ctx(rbs[k])
        old = RL.gen_tree(rnd, ctx, 0.4)
        new = RL.mutate(rnd, ctx, old, 0.4)
        job = {"kind": "syn", "rb": k, "rules": rbs[k], "vendor": rnd.choice(["huawei", "cisco", "arista"]), "old": RL.plain(old),
               "new": RL.plain(new), "acl": rnd.choice(acls + rb_acls[k] + rb_acls[k]), "comments": rnd.random() < 0.4}
        if rnd.random() < 0.3 and len(new) >= 2:
            # reference tracking (generators that refer to each other's objects): the referring and the defining generator's output are
            # handed to the patch step, which inserts them as ordering rules for THIS device
            rows = list(RL.plain(new).items())
            rnd.shuffle(rows)
            job["ref"] = [dict(rows[:1]), dict(rows[1:2])]
        jobs.append(job)
    return jobs


def _plain_diff(d):
    return [[str(op), row, _plain_diff(ch)] for op, row, ch, _ in d]


def _canon(x):
    from vf.props.c18 import canon
    return canon(x)


def _acl_digest(rules):
    """what a compiled ACL DECIDES, rule by rule (not its raw fields: the scratch 'match' field and harmless repetitions inside the
    flag lists may change): covered-only-by-not-deletable flag, per-generator deletability, priority, and the same for the children.
    If this changes for some rule, the row instantiating that rule alone is answered differently before and after - a history dependence."""
    if rules is None:
        return None
    out = []
    for part in ("local", "global"):
        for rid, r in rules[part].items():
            a = r["attrs"]
            per = {}
            for n, f in zip(a.get("generator_names") or [], a.get("cant_delete") or []):
                per[n] = per.get(n, True) and bool(f)
            out.append((part, rid, r["type"], all(a.get("cant_delete") or []), tuple(sorted(per.items())), a.get("prio"),
                        _acl_digest(r["children"]) if r.get("children") else None))
    return out


def run_job(job, snapshots=False):
    """-> (result, problems) ; problems lists input/rulebook mutations observed"""
    from annet.annlib.netdev.views.hardware import HardwareView
    from annet.annlib.patching import Orderer
    from annet.annlib.rbparser.acl import compile_acl_text
    from annet.api import _diff_and_patch
    from annet.rulebook import get_rulebook
    from vf.model import corpus, sut
    _provider()
    problems = []
    if job["kind"] == "corpus":
        s = corpus.samples()[job["i"]]
        hw = HardwareView(s["model"], None)
        import copy
        old, new = copy.deepcopy(s["old"]), copy.deepcopy(s["new"])   # private copies: a buggy tree must not poison the job pool
        rb = get_rulebook(hw)
        acl, comments = None, False
        vendor = hw.vendor
    elif job["kind"] == "vlan":
        hw = HardwareView(job["model"], None)
        old, new = RL.to_odict(job["old"]), RL.to_odict(job["new"])
        rb = get_rulebook(hw)
        acl, comments = None, False
        vendor = hw.vendor
    elif job["kind"] == "order":
        hw = HardwareView(job["model"], None)
        old, new = RL.to_odict({}), RL.to_odict(job["new"])
        rb = get_rulebook(hw)
        acl, comments = None, False
        vendor = hw.vendor
    else:
        vendor = job["vendor"]
        hw = sut.hw_for(vendor)
        old, new = RL.to_odict(job["old"]), RL.to_odict(job["new"])
        rb = sut.make_rb(RL.rule_text(job["rules"]), vendor)
        acl = compile_acl_text(job["acl"], vendor) if job["acl"] else None
        comments = job["comments"]
        if job.get("ref"):
            from annet.reference import RefTracker
            ref_track = RefTracker()
            RefCls, DefCls = type("RefGen", (), {}), type("DefGen", (), {})
            ref_track.add(RefCls, DefCls)
            ref_track.config(RefCls, RL.to_odict(job["ref"][0]))
            ref_track.config(DefCls, RL.to_odict(job["ref"][1]))
    if not job.get("ref"):
        ref_track = None
    before = (json.dumps(old), json.dumps(new), _canon(rb) if snapshots else None, _acl_digest(acl) if snapshots else None)
    import signal

    class _Timeout(BaseException):
        pass

    def _alarm(*_a):
        raise _Timeout()
    prev = signal.signal(signal.SIGALRM, _alarm)
    signal.setitimer(signal.ITIMER_REAL, JOB_TIME_LIMIT)
    try:
        if job["kind"] == "order":
            d, paths = [], []   # (these rows are made for the orderer; the ordered configuration is what `annet gen` prints)
        else:
            excl = None
            if acl is not None:
                # what the gen step does with the same (cached, shared) compiled ACL right before the diff: the generated configuration
                # is filtered with the ownership check on
                import annet.annlib.patching as _P
                try:
                    _P.apply_acl(RL.to_odict(RL.plain(new)), acl, exclusive=True)
                    excl = "ok"
                except Exception as e:
                    excl = type(e).__name__
            d, pt = _diff_and_patch(sut.Dev(hw), old, new, acl, None, comments, ref_track=ref_track, rb=rb)
            fmt = sut.registry().match(hw).make_formatter(indent="")
            # (a command is handed to the deploy step together with its rule context, which selects %ifcontext deploy rules)
            paths = [list(p) + ["ctx=" + json.dumps(c, sort_keys=True, default=str)] if c else list(p) for p, c in fmt.cmd_paths(pt).items()]
        oc = Orderer(rb["ordering"], hw.vendor).order_config(new)
        res = ["ok", _plain_diff(d), paths, [[k, json.dumps(v)] for k, v in oc.items()]]
        if job["kind"] == "syn" and job.get("acl"):
            res.append("exclusive-pass:" + str(excl))
        if job["kind"] != "syn":
            # the shipped rulebook this hardware gets (rendered per model): the same in a fresh process and after any other models
            import hashlib
            res.append(hashlib.sha1(json.dumps(_canon(rb), default=str).encode()).hexdigest())
    except _Timeout:
        res = ["timeout"]     # a time budget hit is inconclusive, never a violation
    except Exception as e:
        res = ["raise", type(e).__name__, str(e)[:160]]
    finally:
        signal.setitimer(signal.ITIMER_REAL, 0)
        signal.signal(signal.SIGALRM, prev)
    after = (json.dumps(old), json.dumps(new), _canon(rb) if snapshots else None,
             _acl_digest(acl) if snapshots and res[0] != "timeout" else before[3])
    if before[0] != after[0]:
        problems.append("the caller's OLD configuration tree was modified")
    if before[1] != after[1]:
        problems.append("the caller's NEW configuration tree was modified")
    if snapshots and before[2] != after[2]:
        problems.append("the compiled rulebook was modified")
    if snapshots and before[3] != after[3]:
        problems.append("the shared compiled ACL now decides differently for some rule (deletability / ownership changed as a side effect of matching)")
    return res, problems, vendor


def _inline_run(job):
    import sys
    sys.path.insert(0, VERIF)
    res, problems, vendor = run_job(job, snapshots=True)
    return json.loads(json.dumps(res)), problems


def _check_inline(case):
    """regression form of a hash-seed finding: the job itself is in the file (the pool index depends on VERIF_SEED)"""
    ctx = mp.get_context("spawn")
    saved = os.environ.get("PYTHONHASHSEED")
    outs = {}
    try:
        for hs in (0, case["hash_seed"]):
            os.environ["PYTHONHASHSEED"] = str(hs)
            with ctx.Pool(1, maxtasksperchild=1) as pool:
                outs[hs] = pool.map(_inline_run, [case["inline_job"]])[0]
    finally:
        if saved is None:
            os.environ.pop("PYTHONHASHSEED", None)
        else:
            os.environ["PYTHONHASHSEED"] = saved
    a, b = outs[0][0], outs[case["hash_seed"]][0]
    if a != b and a[0] != "timeout" and b[0] != "timeout":
        raise Violation("hash-seed-dependent", "the job alone in a new process started with PYTHONHASHSEED=%d gives a different result than "
                        "with PYTHONHASHSEED=0 (%s)" % (case["hash_seed"], _first_diff(b, a)), {"hash_seed": case["hash_seed"], "results": outs})
    return ["other-hash-seed-run"]


def _cold_run(args):
    """a short sequence of jobs in an interpreter that has served nothing yet (spawned, one sequence per process): what a rulebook or ACL
    text compiles to must not depend on which vendor's texts the process compiled first"""
    tier, seed, seq = args
    import sys
    sys.path.insert(0, VERIF)
    jobs = _pool(tier, seed)
    out = []
    for idx in seq:
        res, problems, vendor = run_job(jobs[idx], snapshots=True)
        out.append([idx, json.loads(json.dumps(res)), problems])
    return out


def _judge_cold(tier, seed, seq, out):
    fr = _fresh(tier, seed)
    for pos, (idx, res, problems) in enumerate(out):
        job = _pool(tier, seed)[idx]
        det = {"position": pos, "job": {k: v for k, v in job.items() if k != "rules"}, "history": seq[:pos], "cold_start": True,
               "case": {"tier": tier, "seq": list(seq), "cold": True}}
        if problems:
            raise Violation("input-modified", f"cold start, job {idx} at position {pos}: " + "; ".join(problems), det)
        fresh = fr["fresh"][str(idx)]
        if res[0] == "timeout" or fresh[0] == "timeout":
            continue
        if res != fresh:
            det.update({"in_history": res, "fresh": fresh})
            raise Violation("history-dependent", f"job {idx} run in a new process right after jobs {seq[:pos]} gives a different result than alone "
                            f"in a new process ({_first_diff(res, fresh)})", det)


def _cold_sequences(tier, seed, n):
    fr = _fresh(tier, seed)
    byv = {}
    for i, v in fr["vendor"].items():
        byv.setdefault(v, []).append(int(i))
    vendors = sorted(byv)
    seqs = []
    for k in range(n):
        rnd = random.Random("cold-%d-%d" % (seed, k))
        first = rnd.choice(byv[vendors[k % len(vendors)]])       # every vendor gets to be the first one served
        rest = [rnd.choice(byv[rnd.choice(vendors)]) for _ in range(rnd.randint(2, 4))]
        seqs.append([first] + rest)
    # every ordered pair of hardware models with shipped ordering rulebooks: A's configuration ordered first, then B's (the same rule
    # texts occur in several vendors' *.order files)
    jobs = _pool(tier, seed)
    by_model = {}
    for i, j in enumerate(jobs):
        if j["kind"] == "order":
            by_model.setdefault(j["model"], []).append(i)
    models = sorted(by_model)
    for a in models:
        for b in models:
            if a != b:
                seqs.append([by_model[a][0]] + by_model[b])
    return seqs


def extra_phase(tier, seed):
    n = 48 if tier == "quick" else 480
    seqs = _cold_sequences(tier, seed, n)
    ctx = mp.get_context("spawn")
    with ctx.Pool(min(16, os.cpu_count() or 1), maxtasksperchild=1) as pool:
        outs = pool.map(_cold_run, [(tier, seed, s) for s in seqs], chunksize=1)
    nt = []
    for s, out in zip(seqs, outs):
        _judge_cold(tier, seed, s, out)
        nt.append(case_hash({"cold": s}))
    # fresh interpreters started with ANOTHER string-hash seed (production runs with a random one): "processed first in a fresh process"
    # names one result, so it must not depend on the iteration order of a set of strings
    njobs = len(_pool(tier, seed))
    hseeds = [1] if tier == "quick" else [1, 2, 3, 4, 5]
    saved = os.environ.get("PYTHONHASHSEED")
    hs_runs = 0
    try:
        for hs in hseeds:
            os.environ["PYTHONHASHSEED"] = str(hs)      # spawned children are new interpreters: they start with this seed
            with ctx.Pool(min(16, os.cpu_count() or 1), maxtasksperchild=1) as pool:
                outs = pool.map(_cold_run, [(tier, seed, [i]) for i in range(njobs)], chunksize=1)
            for i, out in enumerate(outs):
                try:
                    _judge_cold(tier, seed, [i], out)
                except Violation as v:
                    if v.kind == "history-dependent":
                        v.kind = "hash-seed-dependent"
                        v.what = ("job %d alone in a new process started with PYTHONHASHSEED=%d gives a different result than alone in a new "
                                  "process started with PYTHONHASHSEED=0: " % (i, hs)) + v.what
                        if isinstance(v.detail, dict):
                            v.detail["hash_seed"] = hs
                            v.detail["case"] = {"tier": tier, "seq": [i], "cold": True, "hash_seed": hs}
                    raise
                hs_runs += 1
    finally:
        if saved is None:
            os.environ.pop("PYTHONHASHSEED", None)
        else:
            os.environ["PYTHONHASHSEED"] = saved
    return {"evaluations": len(seqs) + hs_runs, "nontrivial": nt, "labels": {"cold-start-sequence": len(seqs), "other-hash-seed-run": hs_runs},
            "samples": [{"case": {"tier": tier, "seq": seqs[0], "cold": True}, "labels": ["cold-start-sequence"]}],
            "coverage": {"cold_start_sequences": len(seqs), "fresh_runs_under_other_hash_seeds": hs_runs, "hash_seeds": [0] + hseeds}}


def _fresh_one(args):
    tier, seed, idx = args
    import sys
    sys.path.insert(0, VERIF)
    job = _pool(tier, seed)[idx]
    res, problems, vendor = run_job(job)
    return idx, res, vendor


def _cache_path(tier, seed):
    return os.path.join(VERIF, ".scratch", "c20-%s-%d.json" % (tier, seed))


def prepare(tier, seed):
    _write_pool(tier, seed)
    jobs = _pool(tier, seed)
    ctx = mp.get_context("spawn")
    with ctx.Pool(min(16, os.cpu_count() or 1), maxtasksperchild=1) as pool:
        out = pool.map(_fresh_one, [(tier, seed, i) for i in range(len(jobs))], chunksize=1)
    os.makedirs(os.path.dirname(_cache_path(tier, seed)), exist_ok=True)
    with open(_cache_path(tier, seed), "w") as f:
        json.dump({"fresh": {str(i): r for i, r, v in out}, "vendor": {str(i): v for i, r, v in out}}, f)


_FRESH = {}


def _fresh(tier, seed):
    key = (tier, seed)
    if key not in _FRESH:
        with open(_cache_path(tier, seed)) as f:
            _FRESH[key] = json.load(f)
    return _FRESH[key]


def _tier_seed():
    return os.environ.get("VF_C20_TIER", "quick"), int(os.environ.get("VERIF_SEED", "1") or "1")


def strategy(tier):
    os.environ["VF_C20_TIER"] = tier
    n = len(_pool(tier, _tier_seed()[1]))
    return st.builds(lambda seq, tier=tier: {"tier": tier, "seq": seq}, st.lists(st.integers(0, n - 1), min_size=2, max_size=12))


def check(case):
    if case.get("inline_job"):
        return _check_inline(case)
    tier = case["tier"]
    seed = _tier_seed()[1]
    if not os.path.exists(_cache_path(tier, seed)):
        prepare(tier, seed)   # replay of a single case: compute the baselines first
    fr = _fresh(tier, seed)
    jobs = _pool(tier, seed)
    if case.get("cold"):
        ctx = mp.get_context("spawn")
        saved = os.environ.get("PYTHONHASHSEED")
        try:
            if case.get("hash_seed") is not None:
                os.environ["PYTHONHASHSEED"] = str(case["hash_seed"])     # the new interpreter starts with this string-hash seed
            with ctx.Pool(1, maxtasksperchild=1) as pool:
                out = pool.map(_cold_run, [(tier, seed, list(case["seq"]))])[0]
        finally:
            if saved is None:
                os.environ.pop("PYTHONHASHSEED", None)
            else:
                os.environ["PYTHONHASHSEED"] = saved
        _judge_cold(tier, seed, list(case["seq"]), out)
        return ["cold-start-sequence"] + (["other-hash-seed-run"] if case.get("hash_seed") is not None else [])
    labels = []
    seen = {}
    vendors = set()
    rbkeys = []
    for pos, idx in enumerate(case["seq"]):
        job = jobs[idx]
        res, problems, vendor = run_job(job, snapshots=True)
        vendors.add(vendor)
        rbkeys.append((vendor, job.get("rb", "shipped")))
        det = {"position": pos, "job": {k: v for k, v in job.items() if k != "rules"}, "history": case["seq"][:pos]}
        if problems:
            raise Violation("input-modified", f"job {idx} at position {pos}: " + "; ".join(problems), det)
        fresh = fr["fresh"][str(idx)]
        if res[0] == "timeout" or fresh[0] == "timeout":
            labels.append("timeout-inconclusive")
            continue
        if json.loads(json.dumps(res)) != fresh:
            det.update({"in_history": res, "fresh": fresh})
            raise Violation("history-dependent", f"job {idx} after history {case['seq'][:pos]} gives a different result than in a fresh process "
                            f"({_first_diff(res, fresh)})", det)
        if idx in seen:
            labels.append("repeated-job")
        seen[idx] = True
        if job["kind"] == "syn" and job["acl"]:
            labels.append("shared-acl")
        if job["kind"] == "order":
            labels.append("shipped-ordering-job")
        if job["kind"] == "vlan":
            labels.append("vlan-list-job")
        if job.get("ref"):
            labels.append("reference-tracking-job")
        if job["kind"] == "syn" and res[0] == "ok":
            # absolute oracle for the mutating logic: every call sees a pristine rule, so its removal command carries exactly one mark
            for p in res[2]:
                p = [x for x in p if not x.startswith("ctx=")]
                if p[-1].startswith("XX") or p[-1].count(" touched") > 1:
                    raise Violation("logic-mutation-leaked", f"job {idx}: command {p!r} shows a rule attribute mutated by an earlier logic call", det)
                if p[-1].startswith("X"):
                    labels.append("mutating-logic-removal")
        if res[0] == "raise":
            labels.append("raises-consistently")
    if len(vendors) >= 2 and any(rbkeys[i] == rbkeys[j] and case["seq"][i] != case["seq"][j] and j - i >= 1
                                 for i in range(len(rbkeys)) for j in range(i + 1, len(rbkeys))):
        labels.append("two-vendors+repeat")
    return labels


def _first_diff(a, b):
    if a[0] != b[0]:
        return "%r vs %r" % (a[:2], b[:2])
    if len(a) > 4 and len(b) > 4 and a[4] != b[4]:
        return "the compiled rulebook this hardware gets differs"
    for name, x, y in (("diff", a[1], b[1]), ("commands", a[2], b[2]), ("ordered config", a[3], b[3])):
        if x != y:
            return "%s differ: %r vs %r" % (name, str(x)[:200], str(y)[:200])
    return "?"


def nontrivial(labels):
    return "two-vendors+repeat" in labels
