"""C11 - VLAN-list commands change exactly the VLANs that differ."""
import itertools
from collections import OrderedDict as odict

from hypothesis import strategies as st

from vf.core.runner import Violation

PID = "C11"
LEVEL = "exploration"
BUDGET = {"quick": 3000, "thorough": 120000}
ENUM_EXHAUSTIVE = True
EXHAUSTIVE_NOTE = ("quick: all ordered pairs of subsets of the 6-element universe {2,3,4,6,7,10} x all splittings of each range list over "
                   "1..2 config lines, for each of 6 rule kinds (huawei trunk/hybrid-tagged/vlan-batch/stp-instance, cisco swtrunk, nexus vlan) "
                   "in device mode, and the trunk kinds in file mode too; thorough: the 8-element universe {2,3,4,6,7,10,11,20} and 1..3 lines. "
                   "The random part over 1..4094 is generated, not exhaustive.")
RULE = ("Enumerated: a batch of up to 48 interfaces per evaluation, each holding one (S_old lines, S_new lines) pair; pairs counted in "
        "labels['n:pairs']. Generated: Hypothesis subsets of 1..4094 (clustered so that ranges form), split over 1..4 lines of <=10 ranges. "
        "The shipped huawei/cisco/nexus rulebooks produce the patch (device front end and file front end); the emitted commands are "
        "executed on a VLAN-set device model. Oracle: final set == S_new and every intermediate set contains S_old & S_new; "
        "expand(collapse(S)) == S for both vendors' helpers and all chunk lengths. "
        "Non-trivial: both sets non-empty and different, and one side has >=2 lines with >=1 unchanged line.")
ASSUMPTIONS = [
    "device model: '<prefix> <list>' / '<prefix> add <list>' adds, 'undo|no <prefix> [remove] <list>' removes, 'undo <prefix> all' / "
    "'<prefix> none' / 'undo instance N' clears; lines of one set are a partition of it (no VLAN on two lines), as devices print them",
    "an empty set is represented by the absence of the line",
    "cisco Catalyst global VLANs (kind cs-global): list lines 'vlan <ranges>' and named 'vlan N' blocks are disjoint on each side (a Catalyst does "
    "not repeat a VLAN that has a block in the list lines); 'vlan L' / a 'vlan N' block header create, 'no vlan L' deletes",
    "huawei global VLANs (kind hw-global): on both sides every 'vlan N' block's VLAN is also in the 'vlan batch' lines (VRP adds it there "
    "itself); 'undo vlan N' and 'undo vlan batch N' both delete the VLAN everywhere (tests/annet/test_patch/huawei_vlan_global_and_batch.yaml)",
]
FLOORS = {}

U6 = [2, 3, 4, 6, 7, 10]
U8 = [2, 3, 4, 6, 7, 10, 11, 20]
KINDS = ["hw-trunk", "hw-tagged", "hw-batch", "hw-instance", "cs-swtrunk", "nx-vlan"]
GEN_KINDS = KINDS + ["hw-global", "hw-global", "cs-global", "cs-global", "nx-swtrunk", "nx-swtrunk"]


# ------------------------------------------------------------------ own range helpers (not annet's)
def ranges(s):
    out = []
    for v in sorted(s):
        if out and out[-1][1] == v - 1:
            out[-1][1] = v
        else:
            out.append([v, v])
    return out


def fmt_hw(rs):
    return " ".join(str(a) if a == b else "%d to %d" % (a, b) for a, b in rs)


def fmt_cs(rs):
    return ",".join(str(a) if a == b else "%d-%d" % (a, b) for a, b in rs)


def splittings(rs, maxlines):
    """all ways to cut the range list into 1..maxlines contiguous non-empty lines"""
    n = len(rs)
    if n == 0:
        yield []
        return
    for k in range(1, min(maxlines, n) + 1):
        for cuts in itertools.combinations(range(1, n), k - 1):
            b = [0] + list(cuts) + [n]
            yield [rs[b[i]:b[i + 1]] for i in range(k)]


def parse_list(text):
    s = set()
    text = text.replace(",", " ").replace(" to ", "-")
    for part in text.split():
        if "-" in part:
            a, b = part.split("-")
            s.update(range(int(a), int(b) + 1))
        else:
            s.add(int(part))
    return s


PREFIX = {
    "hw-trunk": "port trunk allow-pass vlan", "hw-tagged": "port hybrid tagged vlan", "hw-batch": "vlan batch",
    "hw-instance": "instance 1 vlan", "cs-swtrunk": "switchport trunk allowed vlan", "nx-vlan": "vlan",
    "nx-swtrunk": "switchport trunk allowed vlan",
}
MODEL = {"hw": "Huawei CE6870", "cs": "Cisco Catalyst 2960", "nx": "Cisco Nexus 3132"}


def rows_for(kind, lines):
    pre = PREFIX[kind]
    out = []
    for i, rs in enumerate(lines):
        if kind.startswith("hw"):
            out.append("%s %s" % (pre, fmt_hw(rs)))
        elif kind in ("cs-swtrunk", "nx-swtrunk"):
            out.append("%s %s%s" % (pre, "add " if i else "", fmt_cs(rs)))
        else:
            out.append("%s %s" % (pre, fmt_cs(rs)))
    return out


def simulate(kind, cmds, s_old):
    """executes command rows on a VLAN set; yields the set after every command"""
    s = set(s_old)
    pre = PREFIX[kind]
    for c in cmds:
        neg = False
        body = c
        for w in ("undo ", "no "):
            if c.startswith(w):
                neg, body = True, c[len(w):]
        if kind == "hw-instance" and neg and body == "instance 1":
            s = set()
        elif not body.startswith(pre):
            raise Violation("foreign-command", f"unexpected command {c!r} for {kind}", {})
        else:
            arg = body[len(pre):].strip()
            if arg == "all" and neg:
                s = set()
            elif arg == "none" and not neg:
                s = set()
            elif arg.startswith("remove ") and kind in ("cs-swtrunk", "nx-swtrunk"):
                s -= parse_list(arg[len("remove "):])
            elif arg.startswith("add ") and kind in ("cs-swtrunk", "nx-swtrunk"):
                s |= parse_list(arg[len("add "):])
            elif neg:
                s -= parse_list(arg)
            else:
                s |= parse_list(arg)
        yield set(s), c


# ------------------------------------------------------------------ cases
def _pairs(universe, maxlines):
    subs = []
    for mask in range(1 << len(universe)):
        subs.append([universe[i] for i in range(len(universe)) if mask >> i & 1])
    for so in subs:
        lo = list(splittings(ranges(so), maxlines))
        for sn in subs:
            for a in lo:
                for b in splittings(ranges(sn), maxlines):
                    yield a, b


def enumerate_cases(tier, shard, nshards):
    universe, maxlines = (U6, 2) if tier == "quick" else (U8, 3)
    idx = 0
    plans = [(k, "device") for k in KINDS] + [("hw-trunk", "file"), ("cs-swtrunk", "file")]
    for kind, mode in plans:
        single = kind in ("hw-batch", "nx-vlan", "hw-instance")
        ml = 1 if kind == "hw-instance" else maxlines
        if single and tier == "quick":
            uni = universe[:5]
        else:
            uni = universe
        batch = []
        bsize = 1 if single else 48
        for a, b in _pairs(uni, ml):
            batch.append([a, b])
            if len(batch) == bsize:
                idx += 1
                if idx % nshards == shard:
                    yield {"enum": True, "kind": kind, "mode": mode, "items": batch}
                batch = []
        if batch:
            idx += 1
            if idx % nshards == shard:
                yield {"enum": True, "kind": kind, "mode": mode, "items": batch}


@st.composite
def _vset(draw):
    n = draw(st.integers(0, 5))
    s = set()
    for _ in range(n):
        a = draw(st.integers(1, 4094))
        ln = draw(st.sampled_from([1, 1, 2, 3, 8, 40]))
        s.update(range(a, min(4094, a + ln - 1) + 1))
    return s


@st.composite
def _cases(draw):
    kind = draw(st.sampled_from(GEN_KINDS))
    mode = draw(st.sampled_from(["device", "device", "file"]))
    if kind == "hw-global":
        return draw(_global_case(mode))
    if kind == "cs-global":
        return draw(_global_case(mode, "cs-global"))
    base = draw(_vset())
    so = set(base) | draw(_vset())
    sn = (set(base) | draw(_vset())) - draw(_vset())
    items = []
    for s in (so, sn):
        rs = ranges(s)
        k = 1 if kind == "hw-instance" else draw(st.integers(1, 4))
        cuts = sorted(draw(st.sets(st.integers(1, max(1, len(rs) - 1)), max_size=k - 1))) if len(rs) > 1 else []
        b = [0] + [c for c in cuts if c < len(rs)] + [len(rs)]
        lines = [rs[b[i]:b[i + 1]] for i in range(len(b) - 1) if rs[b[i]:b[i + 1]]]
        # devices print at most 10 ranges per line
        fixed = []
        for l in lines:
            for o in range(0, len(l), 10):
                fixed.append(l[o:o + 10])
        items.append([fixed[0:1] if kind == "hw-instance" and fixed else fixed][0])
    if kind == "hw-instance":
        items = [[sum(x, [])] if x else [] for x in items]
    case = {"kind": kind, "mode": mode, "items": [items]}
    if kind == "nx-swtrunk":
        case["lag"] = draw(st.sampled_from([None, None, "old", "old", "new", "both"]))
    return case


@st.composite
def _global_case(draw, mode, kind="hw-global"):
    """cisco Catalyst global VLANs (kind cs-global): list lines 'vlan 2-5,7' and named blocks 'vlan 9' / 'name x'; a VLAN that has a
    block is not repeated in the list lines (the way Catalysts print them).
    huawei global VLANs: the set is declared by 'vlan batch' lines (1..3 lines) and by 'vlan N' blocks (with a name); a VLAN may be in both"""
    uni = draw(st.sets(st.integers(2, 40), min_size=1, max_size=12))
    def side():
        blocks = sorted(draw(st.sets(st.sampled_from(sorted(uni)), max_size=4)))
        # VRP invariant: declaring a 'vlan N' block puts N into the batch list too, so a block's VLAN is always in the batch lines
        batch = sorted(set(draw(st.sets(st.sampled_from(sorted(uni)), max_size=len(uni)))) | set(blocks))
        if kind == "cs-global":
            batch = sorted(set(batch) - set(blocks))
        rs = ranges(batch)
        k = draw(st.integers(1, 3))
        cuts = sorted(draw(st.sets(st.integers(1, max(1, len(rs) - 1)), max_size=k - 1))) if len(rs) > 1 else []
        b = [0] + cuts + [len(rs)]
        lines = [rs[b[i]:b[i + 1]] for i in range(len(b) - 1) if rs[b[i]:b[i + 1]]]
        return {"batch_lines": lines, "blocks": blocks}
    return {"kind": kind, "mode": mode, "old": side(), "new": side()}


def strategy(tier):
    return _cases()


# ------------------------------------------------------------------ check
def _helpers_roundtrip(s, labels):
    from annet.annlib.lib import cisco_collapse_vlandb, cisco_expand_vlandb, huawei_collapse_vlandb, huawei_expand_vlandb
    if not s:
        return
    for cl in (0, 1, 3, 10):
        col = huawei_collapse_vlandb(s, cl)
        flat = [x for ch in col for x in ch] if cl else col
        back = huawei_expand_vlandb(" ".join(flat))
        if back != set(s):
            raise Violation("expand-collapse", f"huawei expand(collapse({sorted(s)}), chunk_len={cl}) = {sorted(back)}", {})
    for tiny in (True, False):
        back = cisco_expand_vlandb(",".join(cisco_collapse_vlandb(s, tiny)))
        if back != set(s):
            raise Violation("expand-collapse", f"cisco expand(collapse({sorted(s)}), tiny_ranges={tiny}) = {sorted(back)}", {})


def _device_mode(hw, old, new, det_rows=None):
    """device front end; the patch is computed a second time with an ACL that covers every line (production always passes the
    generators' ACL): an all-covering ACL must not change a single command"""
    import copy
    from annet.annlib.rbparser.acl import compile_acl_text
    from annet.api import _diff_and_patch
    from vf.core.runner import Violation
    from vf.model import sut
    d, pt = _diff_and_patch(sut.Dev(hw), copy.deepcopy(old), copy.deepcopy(new), None, None, False)
    vendor = sut.registry().match(hw).NAME
    acl = compile_acl_text("~ %global=1\n", vendor)
    d2, pt2 = _diff_and_patch(sut.Dev(hw), copy.deepcopy(old), copy.deepcopy(new), acl, None, False)
    fmt = sut.registry().match(hw).make_formatter(indent="")
    p1, p2 = list(fmt.cmd_paths(pt).keys()), list(fmt.cmd_paths(pt2).keys())
    if p1 != p2:
        raise Violation("acl-changes-patch", "with an ACL that covers every line the commands are %r, without an ACL %r (old rows %r, new rows %r)"
                        % (p2, p1, _rows(old), _rows(new)), {"with_acl": [list(p) for p in p2], "without_acl": [list(p) for p in p1]})
    return d, pt


def _rows(t, pre=()):
    out = []
    for k, v in t.items():
        out.append(list(pre + (k,)))
        out += _rows(v, pre + (k,))
    return out


def _check_global(case):
    """VRP semantics: 'vlan batch L' creates, 'undo vlan batch L' deletes, 'vlan N' (block header) creates N, 'undo vlan N' deletes N
    everywhere (also from the batch list)."""
    from annet.annlib.netdev.views.hardware import HardwareView
    from annet.api import _diff_and_patch, _read_old_new_diff_patch
    from vf.model import sut
    kind = case["kind"]
    cs = kind == "cs-global"
    hw = HardwareView(MODEL["cs" if cs else "hw"], "")
    labels = ["kind:" + kind, "mode:" + case["mode"]]

    def tree(side):
        t = odict()
        for l in side["batch_lines"]:
            t[("vlan " + fmt_cs(l)) if cs else ("vlan batch " + fmt_hw(l))] = odict()
        for n in side["blocks"]:
            t["vlan %d" % n] = odict([("name v%d" % n, odict())])
        return t

    def vset(side):
        return {v for l in side["batch_lines"] for a, b in l for v in range(a, b + 1)} | set(side["blocks"])
    old, new = tree(case["old"]), tree(case["new"])
    s_old, s_new = vset(case["old"]), vset(case["new"])
    if case["mode"] == "device":
        d, pt = _device_mode(hw, old, new)
    else:
        _, d, _, pt = _read_old_new_diff_patch(old, new, hw, False)
    paths = list(sut.registry().match(hw).make_formatter(indent="").cmd_paths(pt).keys())
    cmds = [p[0] for p in paths if len(p) == 1]
    det = {"kind": kind, "mode": case["mode"], "old_rows": list(old), "new_rows": list(new), "commands": cmds}
    cur = set(s_old)
    keep = s_old & s_new
    import re as _re
    for c in cmds:
        m = _re.fullmatch(r"(no )?vlan ([\d,-]+)", c) if cs else _re.fullmatch(r"(undo )?vlan batch (.+)", c)
        if m and cs:
            got = {v for part in m.group(2).split(",") for v in range(int(part.split("-")[0]), int(part.split("-")[-1]) + 1)}
            cur = (cur - got) if m.group(1) else (cur | got)
        elif m:
            if m.group(1):
                cur -= parse_list(m.group(2))
            else:
                cur |= parse_list(m.group(2))
        else:
            m = _re.fullmatch(r"(undo )?vlan (\d+)", c)
            if not m:
                raise Violation("foreign-command", f"unexpected command {c!r} for {kind}", det)
            if m.group(1):
                cur.discard(int(m.group(2)))
            else:
                cur.add(int(m.group(2)))
        if not keep <= cur:
            raise Violation("transient-loss", f"{kind}/{case['mode']}: after {c!r} VLANs {sorted(keep - cur)} present in both sets are gone "
                            f"(old rows {list(old)}, new rows {list(new)})", det)
    if cur != s_new:
        raise Violation("wrong-final-set", f"{kind}/{case['mode']}: commands {cmds} turn {sorted(s_old)} into {sorted(cur)}, expected {sorted(s_new)}", det)
    removed_blocks = [n for n in case["old"]["blocks"] if n not in case["new"]["blocks"]]
    if any(n in s_new for n in removed_blocks):
        labels.append("block-removed-vlan-stays")
    if s_old and s_new and s_old != s_new and len(case["old"]["batch_lines"]) + len(case["new"]["batch_lines"]) >= 3:
        labels.append("nontrivial-pair")
    labels.append("n:pairs:1")
    return labels


def check(case):
    if case["kind"] in ("hw-global", "cs-global"):
        return _check_global(case)
    from annet.annlib.netdev.views.hardware import HardwareView
    from annet.api import _diff_and_patch, _read_old_new_diff_patch
    from vf.model import sut
    kind, mode = case["kind"], case["mode"]
    hw = HardwareView(MODEL[kind[:2]], "")
    vendor = sut.registry().match(hw).NAME
    labels = ["kind:" + kind, "mode:" + mode]
    old, new = odict(), odict()
    holders = []
    for i, (lo, ln) in enumerate(case["items"]):
        ro, rn = rows_for(kind, lo), rows_for(kind, ln)
        if kind in ("hw-batch", "nx-vlan"):
            holder = None
            for r in ro:
                old[r] = odict()
            for r in rn:
                new[r] = odict()
        else:
            holder = {"hw-trunk": "interface 10GE1/0/%d", "hw-tagged": "interface 10GE1/0/%d", "hw-instance": "stp region-configuration",
                      "cs-swtrunk": "interface GigabitEthernet0/%d", "nx-swtrunk": "interface Ethernet1/%d"}[kind]
            holder = holder % i if "%d" in holder else holder
            old[holder] = odict((r, odict()) for r in ro)
            new[holder] = odict((r, odict()) for r in rn)
            if kind.startswith("hw-t") or kind in ("cs-swtrunk", "nx-swtrunk"):
                old[holder]["description x"] = odict()
                new[holder]["description x"] = odict()
            if kind == "nx-swtrunk" and case.get("lag") in ("old", "both"):
                old[holder]["channel-group 1 mode active"] = odict()     # the port leaves (or stays in) a port-channel in the same step
            if kind == "nx-swtrunk" and case.get("lag") in ("new", "both"):
                new[holder]["channel-group 1 mode active"] = odict()
        holders.append(holder)
    if mode == "device":
        d, pt = _device_mode(hw, old, new)
    else:
        _, d, _, pt = _read_old_new_diff_patch(old, new, hw, False)
    paths = list(sut.registry().match(hw).make_formatter(indent="").cmd_paths(pt).keys())
    exitw = sut.registry()[vendor].exit
    for i, (lo, ln) in enumerate(case["items"]):
        s_old = {v for l in lo for a, b in l for v in range(a, b + 1)}
        s_new = {v for l in ln for a, b in l for v in range(a, b + 1)}
        holder = holders[i]
        if holder is None:
            cmds = [p[0] for p in paths if len(p) == 1]
        else:
            cmds = [p[1] for p in paths if len(p) == 2 and p[0] == holder and p[1] != exitw]
            if kind == "nx-swtrunk":
                cmds = [c for c in cmds if PREFIX[kind] in c]    # (lag membership commands are not VLAN-list commands)
        det = {"kind": kind, "mode": mode, "old_rows": rows_for(kind, lo), "new_rows": rows_for(kind, ln), "commands": cmds,
               "unchanged_line_dropped": False}
        ro, rn = rows_for(kind, lo), rows_for(kind, ln)
        unchanged = [r for r in ro if r in rn]
        det["unchanged_lines"] = len(unchanged)
        det["removed_only"] = bool([r for r in ro if r not in rn]) and not [r for r in rn if r not in ro]
        keep = s_old & s_new
        cur = set(s_old)
        try:
            for cur, c in simulate(kind, cmds, s_old):
                if not keep <= cur:
                    raise Violation("transient-loss", f"{kind}/{mode}: after {c!r} VLANs {sorted(keep - cur)} present in both sets are gone "
                                    f"(old rows {ro}, new rows {rn})", det)
        except Violation as v:
            if v.detail == {}:
                v.detail = det
            raise
        if cur != s_new:
            raise Violation("wrong-final-set", f"{kind}/{mode}: commands {cmds} turn {sorted(s_old)} into {sorted(cur)}, expected {sorted(s_new)}", det)
        if s_old and s_new and s_old != s_new and unchanged and (len(lo) >= 2 or len(ln) >= 2):
            labels.append("nontrivial-pair")
        _helpers_roundtrip(s_old, labels)
    labels.append("n:pairs:%d" % len(case["items"]))
    return labels


def nontrivial(labels):
    return "nontrivial-pair" in labels
