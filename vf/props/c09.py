"""C09 - the command stream sent at deploy is exactly the patch that was shown."""
from hypothesis import strategies as st

from vf.core.runner import Violation
from vf.model import rulelang as RL
from vf.model.refmatch import ref_match
from vf.model.rnd import urandoms

PID = "C09"
LEVEL = "exploration"
BUDGET = {"quick": 8000, "thorough": 100000}
HW = {  # vendor -> hardware variants that change the session wrapper
    "huawei": ["Huawei CE6870", "Huawei NE40E", "Huawei S5720"], "h3c": ["H3C S6850"], "optixtrans": ["Huawei OptiXtrans DC908"],
    "cisco": ["Cisco Catalyst 2960"], "nexus": ["Cisco Nexus 3132"], "iosxr": ["Cisco ASR 9001", "Cisco XRv"], "arista": ["Arista DCS-7368"],
    "aruba": ["Aruba AP-325"], "b4com": ["B4com B4T-CS4100", "B4com B4T-CS2148P"], "pc": ["PC"],
}
W = ["aa", "bb", "cc", "x1", "interface e1", "xpl route-filter F", "xpl ip-prefix-list P", "if a then", "elseif b then", "else",
     "address-family ipv4", "route-policy R", "if x then", "prefix-set S", "rsa peer-public-key k", "public-key-code begin", "undo aa",
     "no bb", "commitx", "save-cfg"]
RULE = ("Hypothesis draws a block-structured vendor with a hardware variant, the four (do_commit, do_finalize) combinations, and a PatchTree: "
        "either produced by make_patch over a generated rulebook and config pair (C01's generator), or synthetic (depth<=4, distinct "
        "sibling rows, empty blocks, huawei xpl / cisco address-family / asr route-policy / 'if .. then' rows for the special block "
        "exits); plus a generated deploy rulebook (disjoint sibling rules covering some command paths level by level, %timeout, dialog: "
        "children) installed through a RulebookProvider. Oracles: lines(formatter.patch(pt)) for two indents == [(depth, last)] of "
        "cmd_paths(pt) == body of apply_deploy_rulebook between the wrapper lists; wrapper == a reference table per hardware family, "
        "independent of the patch, without any commit when do_commit=False and without save/write/copy when do_finalize=False; "
        "(timeout, questions) of each command == those of the unique matching rule chain, else (30, none). "
        "Non-trivial: depth>=2 with >=2 block exits.")
ASSUMPTIONS = [
    "sibling rows of a PatchTree are distinct (cmd_paths is keyed by path); %force_commit duplicates are outside the stated domain",
    "a deploy rule for a nested command exists only together with rules for every enclosing block row (unmatched intermediate levels "
    "are not generated: the property does not define them)",
]
FLOORS = {"two-exits-depth2": 0.15, "deploy-rule-hit": 0.2}


def wrapper_ref(model, do_commit, do_finalize):
    m = model
    b, a = [], []
    if m.startswith("Huawei") and "OptiXtrans" not in m:
        b = ["system-view"]
        if do_commit and (" CE" in m or " NE" in m):
            a.append("commit")
        a.append("q")
        if do_finalize:
            a.append("save")
    elif m.startswith("Huawei"):
        b = ["system-view"]
        a = ["q"] + (["save"] if do_finalize else [])
    elif m.startswith("Arista"):
        b = ["conf s"]
        a = ["commit" if do_commit else "abort"] + (["write memory"] if do_finalize else [])
    elif "ASR" in m or "XRv" in m:
        b = ["configure exclusive"]
        a = (["commit"] if do_commit else []) + ["exit"]
    elif m.startswith("Cisco"):
        b = ["conf t"]
        a = ["exit"] + (["copy running-config startup-config"] if do_finalize else [])
    elif m.startswith("Aruba"):
        b = ["conf t"]
        a = ["end"] + (["commit apply"] if do_commit else []) + (["write memory"] if do_finalize else [])
    elif "CS2148P" in m:
        b = ["conf t"]
        a = ["end"] + (["write"] if do_finalize else [])
    elif m.startswith("B4com"):
        b = ["conf t"]
        a = (["commit", "end"] if do_commit else []) + (["write"] if do_finalize else [])
    elif m.startswith("H3C"):
        b = ["system-view"]
        a = ["save force"] if do_finalize else []
    return b, a


def gen_synth(rnd, d=0):
    """JSON patch tree: list of [row, None | children]"""
    out, used = [], set()
    for _ in range(rnd.randint(1, 4)):
        row = rnd.choice(W) + (" " + rnd.choice("abc") if rnd.chance(50) else "")
        if row in used:
            continue
        used.add(row)
        if d < 3 and rnd.chance(50):
            out.append([row, gen_synth(rnd, d + 1) if rnd.chance(85) else []])
        else:
            out.append([row, None])
    return out


def gen_xpl(rnd):
    """a huawei xpl route-filter with one to three if-chains (sibling rows distinct, so at most one 'else')"""
    names = ["a", "b", "c", "d", "e", "f", "g", "h", "i", "j", "k", "l"]
    rnd.shuffle(names)
    rows = []
    else_used = False

    def body():
        return [["apply %s" % rnd.choice("xyz"), None]] if rnd.chance(80) else []
    for _ in range(rnd.randint(1, 3)):
        rows.append(["if %s then" % names.pop(), body()])
        for _ in range(rnd.randint(0, 1)):
            rows.append(["elseif %s then" % names.pop(), body()])
        if not else_used and rnd.chance(40):
            else_used = True
            rows.append(["else", body()])
        if rnd.chance(25):
            rows.append(["apply %s" % names.pop(), None])
    return ["xpl route-filter %s" % rnd.choice("FGH"), rows]


ALT_APPLY = "aruba.ap_env.apply"   # a shipped apply logic with its own wrapper: nothing before, 'write memory' after when committing


DIALOGS = [
    [["Sure? [Y/N]:", "Y"]], [["Sure? [Y/N]:", "Y"]], [["/Cont.*/", "yes"], ["Again?", "N"]],
    # questions that differ only in letter case or blanks are different questions (in a regexp \\d and \\D are opposites)
    [["/Delete \\d+ files\\?/", "Y"], ["/Delete \\D+ files\\?/", "N"]],
    [["Continue?", "y"], ["continue?", "n"], ["Con tinue?", "x"]],
]


def gen_deploy(rnd, ptree, depth=0):
    """deploy rules for some rows of this level (by full row text or head + '~'); nested rules only under block rows that got a rule"""
    rules = []
    heads = set()
    for row, ch in ptree:
        if not rnd.chance(45):
            continue
        w = row.split(" ")
        toks = w if rnd.chance(50) else [w[0], "~"] if len(w) > 1 else w
        if toks[0] in heads:
            continue
        heads.add(toks[0])
        rules.append({"toks": toks, "timeout": rnd.choice([None, 5, 120]), "apply": ALT_APPLY if rnd.chance(30) else None,
                      "dialogs": rnd.choice(DIALOGS) if rnd.chance(50) else [],
                      "children": gen_deploy(rnd, ch, depth + 1) if ch else []})
    return rules


def deploy_lines(rules, ind=0):
    out = []
    for r in rules:
        s = " " * ind + " ".join(r["toks"])
        if r["timeout"]:
            s += " %%timeout=%d" % r["timeout"]
        if r.get("apply"):
            s += " %apply_logic=" + r["apply"]
        out.append(s)
        for q, a in r["dialogs"]:
            out.append(" " * (ind + 4) + "dialog: %s ::: %s" % (q, a))
        out += deploy_lines(r["children"], ind + 4)
    return out


def _gen_from(rnd):
    vendor = rnd.choice(sorted(HW))
    model = rnd.choice(HW[vendor])
    case = {"vendor": vendor, "model": model, "do_commit": rnd.chance(50), "do_finalize": rnd.chance(50)}
    if rnd.chance(40) and vendor in ("huawei", "cisco", "arista", "nexus", "h3c", "b4com", "pc", "iosxr"):
        rules = RL.gen_rules(rnd, opts={"force_commit": True})
        ctx = RL.Ctx(rules)
        old = RL.gen_tree(rnd, ctx)
        case.update({"kind": "make_patch", "rules": rules, "old": RL.plain(old), "new": RL.plain(RL.mutate(rnd, ctx, old))})
    else:
        pt = gen_synth(rnd)
        if vendor in ("huawei", "h3c") and rnd.chance(35):
            pt.insert(rnd.randint(0, len(pt)), gen_xpl(rnd))
            seen = set()
            pt = [x for x in pt if not (x[0] in seen or seen.add(x[0]))]
        case.update({"kind": "synthetic", "patch": pt, "deploy": gen_deploy(rnd, pt)})
    return case


@st.composite
def _cases(draw):
    return _gen_from(draw(urandoms()))


def fuzz_decode(fdp):
    """coverage-guided tier: the same generator driven by fuzzer-chosen bytes (vf/core/fuzz_target.py)"""
    from vf.model.rnd import FdpRandom
    return _gen_from(FdpRandom(fdp))

def strategy(tier):
    return _cases()


def _build(pt_json):
    from annet.annlib.patching import PatchTree
    pt = PatchTree()
    for row, ch in pt_json:
        if ch is None:
            pt.add(row, {})
        else:
            pt.add_block(row, _build(ch))
    return pt


_PROVIDER = None


def _provider():
    global _PROVIDER
    if _PROVIDER is None:
        import annet.rulebook as R
        from annet.rulebook.deploying import compile_deploying_text

        class P(R.DefaultRulebookProvider):
            deploy_text = None

            def get_rulebook(self, hw):
                rb = dict(super().get_rulebook(hw))
                if P.deploy_text is not None:
                    rb["deploying"] = compile_deploying_text(P.deploy_text, hw.vendor)
                return rb
        R.rulebook_provider_connector._classes = [P]
        R.rulebook_provider_connector._cache = None
        _PROVIDER = P
    return _PROVIDER


def _all_rules(deploy):
    for r in deploy:
        yield r
        yield from _all_rules(r["children"])


def _ref_rule(deploy, path):
    rules = deploy
    rule = None
    for i, row in enumerate(path):
        m = [r for r in rules if ref_match(r["toks"], row) is not None]
        if not m:
            # no rule for an enclosing block row: the property does not say which rules then apply to the commands inside
            return None if i == len(path) - 1 else "undefined"
        rule = m[0]
        rules = rule["children"]
    return rule


def _line_paths(lines):
    """(depth, text) lines -> their paths"""
    stack, out = [], []
    for d, t in lines:
        del stack[d:]
        stack.append(t)
        out.append(tuple(stack))
    return out


def _xpl_endif_diagnosis(got, want):
    """Is the difference between the displayed lines and the command paths exactly the listed finding: an xpl route-filter shows a
    second 'endif' (one after the 'else' branch, one closing the last if-chain), and the path-keyed command list keeps only the first?"""
    gp = _line_paths(got)
    seen, dedup, dropped = set(), [], []
    for line, p in zip(got, gp):
        if p in seen:
            dropped.append(p)
            continue
        seen.add(p)
        dedup.append(line)
    if dedup != want or not dropped:
        return False
    if not all(p[-1] == "endif" and len(p) >= 2 and p[-2].startswith("xpl route-filter") for p in dropped):
        return False
    # every displayed endif is one the documented exit rule gives: after the 'else' branch, or closing the filter's last row
    for i, p in enumerate(gp):
        if p[-1] != "endif" or not (len(p) >= 2 and p[-2].startswith("xpl route-filter")):
            continue
        sibs = [q for q in gp if len(q) == len(p) and q[:-1] == p[:-1]]
        idx = [j for j, q in enumerate(gp) if len(q) == len(p) and q[:-1] == p[:-1]].index(i)
        prev = sibs[idx - 1][-1] if idx > 0 else None
        nxt = sibs[idx + 1][-1] if idx + 1 < len(sibs) else None
        if not (prev == "else" or (nxt == "end-filter" and prev is not None and prev.startswith(("if", "elseif")) and prev.endswith("then"))):
            return False
    return True


def _dup_commit_diagnosis(got, want):
    """Is the difference exactly the second listed finding: several 'commit' lines under one block (each following a line that needs its
    own commit), of which the path-keyed command list keeps the first only?"""
    gp = _line_paths(got)
    seen, dedup, dropped = set(), [], []
    for line, p in zip(got, gp):
        if p in seen:
            dropped.append(p)
            continue
        seen.add(p)
        dedup.append(line)
    return bool(dropped) and dedup == want and all(p[-1] == "commit" for p in dropped)


def _parse_stream(cmds, want, keys, wrappers):
    """The driver's list must be a sequence of sessions, each = wrapper-before + (>=1 consecutive shown commands governed by that
    wrapper's apply logic) + wrapper-after, the shown commands in the displayed order.  keys[j] = set of wrapper names allowed for the
    j-th shown command.  Returns the indices of the shown commands in cmds, or None."""
    n, m = len(want), len(cmds)
    lc = [(c[0], c[1]) for c in cmds]
    dead = set()

    def go(i, j, cur, took, acc):
        st = (i, j, cur, took)
        if st in dead:
            return None
        if cur is None:
            if j == n:
                return acc if i == m else None
            for k in sorted(keys[j]):
                b = [(0, x) for x in wrappers[k][0]]
                if lc[i:i + len(b)] == b:
                    r = go(i + len(b), j, k, False, acc)
                    if r is not None:
                        return r
        else:
            if j < n and cur in keys[j] and i < m and lc[i] == want[j]:
                r = go(i + 1, j + 1, cur, True, acc + [i])
                if r is not None:
                    return r
            if took:
                a = [(0, x) for x in wrappers[cur][1]]
                if lc[i:i + len(a)] == a:
                    r = go(i + len(a), j, None, False, acc)
                    if r is not None:
                        return r
        dead.add(st)
        return None
    return go(0, 0, None, False, [])


def enumerate_cases(tier, shard, nshards):
    """the production caller: CliDeployerJob.parse_result over the shipped (before, after) pairs, committing on and off"""
    from vf.model import corpus
    i = 0
    for k, smp in enumerate(corpus.samples()):
        if smp["vendor"] == "pc":
            continue
        for dont_commit in (False, True):
            i += 1
            if i % nshards == shard:
                yield {"enum": True, "kind": "job", "i": k, "dont_commit": dont_commit, "vendor": smp["vendor"], "model": smp["model"]}


    # every registered vendor: the deploy rulebook its hardware gets from the provider is the shipped <vendor>.deploy file
    from vf.model import sut
    for j, v in enumerate(sorted(sut.registry())):
        if j % nshards == shard:
            yield {"enum": True, "kind": "shipped-deploy", "vendor": v, "model": ""}


def _rb_shape(rb):
    out = []
    for row, r in (rb or {}).items():
        a = r.get("attrs", {}) if isinstance(r, dict) else {}
        out.append([row, repr(a.get("timeout")), repr(a.get("apply_logic_name")), len(a.get("dialogs") or {}), _rb_shape(r.get("children") or {})])
    return out


def _shipped_deploy(case):
    """what a command's timeout and dialog answers are taken from is the vendor's shipped deploy rulebook: the provider must hand out
    that file's rules whether or not the vendor also ships an ordering or a patching-alias file"""
    import os
    import annet.rulebook as R
    from annet.lib import mako_render
    from annet.rulebook.deploying import compile_deploying_text
    from vf.model import sut
    vendor = case["vendor"]
    hw = sut.registry()[vendor].hardware
    labels = ["shipped-deploy", "vendor:" + vendor]
    path = os.path.join(os.path.dirname(R.__file__), "texts", vendor + ".deploy")
    got = R.DefaultRulebookProvider().get_rulebook(hw)["deploying"]
    if not os.path.exists(path):
        if _rb_shape(got):
            raise Violation("shipped-deploy-rulebook", f"{vendor}: no {vendor}.deploy file is shipped but the provider hands out deploy rules "
                            f"{_rb_shape(got)!r}"[:600], {"vendor": vendor})
        labels.append("no-deploy-file")
        return labels
    with open(path) as f:
        text = f.read()
    want = compile_deploying_text(mako_render(text, hw=hw), vendor)
    if _rb_shape(got) != _rb_shape(want):
        raise Violation("shipped-deploy-rulebook", f"{vendor}: the provider's deploy rulebook {_rb_shape(got)!r} is not the shipped file's "
                        f"{_rb_shape(want)!r}"[:900], {"vendor": vendor})
    if _rb_shape(want):
        labels.append("deploy-rules-present")
    if not os.path.exists(os.path.join(os.path.dirname(R.__file__), "texts", vendor + ".order")):
        labels.append("deploy-file-without-order-file")
    return labels


_DRIVER = False


def _install_driver():
    global _DRIVER
    if _DRIVER:
        return
    import annet.deploy as D
    from annet.annlib.command import CommandList

    class Driver(D.DeployDriver):
        async def bulk_deploy(self, deploy_cmds, args, progress_bar=None):
            raise NotImplementedError()

        def apply_deploy_rulebook(self, hw, cmd_paths, do_finalize=True, do_commit=True):
            return D.apply_deploy_rulebook(hw, cmd_paths, do_finalize=do_finalize, do_commit=do_commit)

        def build_configuration_cmdlist(self, hw, do_finalize=True, do_commit=True):
            return CommandList(), CommandList()

        def build_exit_cmdlist(self, hw):
            return CommandList()
    D.driver_connector._classes = [Driver]
    D.driver_connector._cache = None
    _DRIVER = True


class _JobDev:
    def __init__(self, hw):
        self.hw, self.hostname, self.fqdn, self.id, self.tags, self.breed = hw, "h1", "h1.x", 1, [], "x"


def _job(case):
    """What CliDeployerJob hands to the driver == session wrapper for (do_commit = not dont_commit, do_finalize = True) around the
    commands it displays; the callee annet.deploy.apply_deploy_rulebook is checked against the wrapper tables by the other cases."""
    import copy
    import types as _t
    from annet.annlib.netdev.views.hardware import HardwareView
    from annet.api import CliDeployerJob
    from annet.deploy import apply_deploy_rulebook
    from annet.types import OldNewResult
    from vf.model import corpus, sut
    _install_driver()
    P = _provider()
    P.deploy_text = None
    smp = corpus.samples()[case["i"]]
    hw = HardwareView(smp["model"], None)
    dev = _JobDev(hw)
    args = _t.SimpleNamespace(acl_safe=False, dont_commit=case["dont_commit"])
    job = CliDeployerJob(dev, args)
    res = OldNewResult(device=dev, old=copy.deepcopy(smp["old"]), new=copy.deepcopy(smp["new"]))
    job.parse_result(res)
    labels = ["job", "vendor:" + smp["vendor"]]
    if job.failed_configs:
        return labels + ["job-failed"]
    shown = [l for l in job.cmd_lines[2:-1]] if job.cmd_lines else []
    cl = job.deploy_cmds.get(dev)
    got = [(c.level, c.cmd) for c in cl] if cl is not None else []
    det = {"sample": smp["name"], "model": smp["model"], "dont_commit": case["dont_commit"], "shown": shown, "driver_gets": got}
    if not shown:
        if got:
            raise Violation("stream-for-empty-patch", f"{smp['name']}: nothing displayed but the driver gets {got!r}", det)
        return labels + ["job-empty"]
    _, pt = sut.diff_and_patch_hw(hw, copy.deepcopy(smp["old"]), copy.deepcopy(smp["new"]), do_commit=not case["dont_commit"])
    f0 = sut.registry().match(hw).make_formatter(indent="")
    paths = f0.cmd_paths(pt)
    if [p[-1] for p in paths] != shown:
        raise Violation("job-shows-other-commands", f"{smp['name']}: the job displays {shown!r}, the patch is {[p[-1] for p in paths]!r}"[:700], det)
    exp = [(c.level, c.cmd) for c in apply_deploy_rulebook(hw, paths, do_finalize=True, do_commit=not case["dont_commit"])]
    if got != exp:
        raise Violation("job-stream-differs", f"{smp['name']} dont_commit={case['dont_commit']}: CliDeployerJob hands {got!r} to the driver; the "
                        f"displayed commands with the session for do_commit={not case['dont_commit']}, do_finalize=True are {exp!r}"[:1100], det)
    if case["dont_commit"] and any(lv == 0 and "commit" in c for lv, c in got if (lv, c) not in [(len(p) - 1, p[-1]) for p in paths]):
        raise Violation("commit-when-disabled", f"{smp['name']}: dont_commit is set but the driver gets a commit: {got!r}"[:700], det)
    if len(got) >= 3:
        labels.append("two-exits-depth2" if any(lv >= 2 for lv, _ in got) else "job-flat")
    return labels


def check(case):
    if case.get("kind") == "job":
        return _job(case)
    if case.get("kind") == "shipped-deploy":
        return _shipped_deploy(case)
    from vf.core.runner import known_or_raise
    from annet.annlib.netdev.views.hardware import HardwareView
    from annet.deploy import apply_deploy_rulebook
    from vf.model import sut
    vendor, model = case["vendor"], case["model"]
    hw = HardwareView(model, "")
    labels = ["vendor:" + vendor, case["kind"]]
    P = _provider()
    P.deploy_text = None
    if case["kind"] == "make_patch":
        rb = sut.make_rb(RL.rule_text(case["rules"]), vendor)
        from annet.api import _diff_and_patch
        _, pt = _diff_and_patch(sut.Dev(hw), RL.to_odict(case["old"]), RL.to_odict(case["new"]), None, None, False, rb=rb)
        deploy = []
        # with committing disabled, a line that needs its own commit (%force_commit) is left out together with the 'commit' that follows
        # it - at every depth; everything else stays, in the same order
        _, pt_nc = _diff_and_patch(sut.Dev(hw), RL.to_odict(case["old"]), RL.to_odict(case["new"]), None, None, False, rb=rb, do_commit=False)
        rv = sut.registry().match(hw)
        fmt_ = rv.make_formatter(indent="")
        rctx = RL.Ctx(case["rules"])

        def needs_commit(path):
            c = rctx
            for i, row in enumerate(path):
                cl = c.classify(row) or (c.classify(row[len(rv.reverse) + 1:]) if row.startswith(rv.reverse + " ") else None)
                if cl is None:
                    return False
                if cl[0].get("force_commit"):
                    return True
                c = c.child(cl[0], row)
            return False
        all_paths = list(fmt_.cmd_paths(pt).keys())
        exitw = rv.exit
        # (a block whose every line was left out is still entered, without an exit line: block exits are not compared)
        exp_nc = [p for p in all_paths if not needs_commit(p) and p[-1] != "commit" and not (exitw and p[-1] == exitw and len(p) > 1)]
        got_nc = [p for p in fmt_.cmd_paths(pt_nc).keys() if not (exitw and p[-1] == exitw and len(p) > 1)]
        if any(needs_commit(p) for p in all_paths):
            labels.append("force-commit-line")
        if got_nc != exp_nc:
            raise Violation("commit-when-disabled", f"{model}: with committing disabled the patch is {got_nc!r}; expected the patch without the "
                            f"lines that need their own commit and without 'commit': {exp_nc!r}"[:900],
                            {"model": model, "rulebook": RL.rule_text(case["rules"]), "paths": [list(p) for p in all_paths]})
    else:
        pt = _build(case["patch"])
        deploy = case["deploy"]
    real_vendor = sut.registry().match(hw).NAME
    f0 = sut.registry()[real_vendor].make_formatter(indent="")
    paths_od = f0.cmd_paths(pt)
    paths = list(paths_od.keys())
    want = [(len(p) - 1, p[-1]) for p in paths]
    det = {"model": model, "paths": [list(p) for p in paths]}
    exits = sum(1 for p in paths if len(p) >= 2 and p[-1] in ("quit", "exit", "end-filter", "end-list", "endif", "exit-address-family",
                                                              "end-set", "end-policy"))
    if exits >= 2 and any(len(p) >= 3 for p in paths):
        labels.append("two-exits-depth2")
    # (a) displayed patch text, two indents
    for indent in ("  ", "   "):
        f = sut.registry()[real_vendor].make_formatter(indent=indent)
        txt = f.patch(pt)
        lines = [] if txt == "" else txt.split("\n")
        unit = f._indent  # the cisco-like formatters ignore the requested indent (constructor passes it as no_block_exit); depth is read in the unit actually used
        got = [((len(l) - len(l.lstrip(" "))) // len(unit), l.strip()) for l in lines]
        if got != [(d, c.strip()) for d, c in want]:
            v = Violation("shown-vs-paths", f"{model}: the displayed patch {got!r} differs from the command paths {want!r}"[:700],
                          dict(det, xpl_second_endif_after_else=_xpl_endif_diagnosis(got, [(d, c.strip()) for d, c in want]),
                               second_commit_in_block=_dup_commit_diagnosis(got, [(d, c.strip()) for d, c in want])))
            labels.append(known_or_raise(PID, v))
            return labels   # the listed class is excluded from the remaining assertions of this case
    if real_vendor == "pc":
        return labels
    # (b) the command list handed to the deploy driver
    if deploy:
        P.deploy_text = "\n".join(deploy_lines(deploy)) + "\n"
        det["deploy_rulebook"] = P.deploy_text
    try:
        res = {}
        for dc in (True, False):
            for df in (True, False):
                cl = apply_deploy_rulebook(hw, f0.cmd_paths(pt), do_finalize=df, do_commit=dc)
                res[(dc, df)] = [(c.level, c.cmd, c.timeout, [(q.question, q.answer, q.is_regexp) for q in (c.questions or [])]) for c in cl]
    finally:
        P.deploy_text = None
    refs = [(_ref_rule(deploy, p) if deploy else None) for p in paths]
    mixed = any(isinstance(r, dict) and r.get("apply") for r in refs) or \
        (any(r == "undefined" for r in refs) and any(r.get("apply") for r in _all_rules(deploy)))
    if mixed:
        labels.append("mixed-apply-logic")
    for (dc, df), cmds in res.items():
        b, a = wrapper_ref(model, dc, df)
        if not paths:
            if cmds:
                raise Violation("stream-for-empty-patch", f"{model}: empty patch but commands {cmds!r}", det)
            continue
        n = len(cmds)
        if mixed:
            # several apply logics: one session (wrapper) per run of commands of one logic; a command inside a block that no deploy
            # rule matches may be governed by either (the property does not say)
            wrappers = {"std": (b, a), "env": ([], ["write memory"] if dc else [])}
            keys = [({"env"} if (isinstance(r, dict) and r.get("apply")) else {"std", "env"} if r == "undefined" else {"std"}) for r in refs]
            idx = _parse_stream(cmds, want, keys, wrappers)
            if idx is None:
                raise Violation("stream-differs", f"{model} commit={dc} finalize={df}: driver gets {[(c[0], c[1]) for c in cmds]!r}: not the shown "
                                f"commands {want!r} in order, each run wrapped by its apply logic's session {wrappers!r}"[:1100], det)
            body = [cmds[i] for i in idx]
            runs = [k for i, k in enumerate(keys) if len(k) == 1 and (i == 0 or keys[i - 1] != k)]
            if len(runs) >= 3 and dc and df:
                labels.append("alternating-sessions")
            allc = []   # (every wrapper command was matched against the reference tables above)
        else:
            body = cmds[len(b):n - len(a)] if len(a) else cmds[len(b):]
            gb = [c[1] for c in cmds[:len(b)]]
            ga = [c[1] for c in cmds[n - len(a):]] if len(a) else []
            if [(c[0], c[1]) for c in body] != want or gb != b or ga != a:
                raise Violation("stream-differs", f"{model} commit={dc} finalize={df}: driver gets {[(c[0], c[1]) for c in cmds]!r}; expected wrapper "
                                f"{b!r} + shown commands {want!r} + {a!r}"[:900], det)
            allc = [c[1] for c in cmds[:len(b)]] + ga
        if not dc and any("commit" in c for c in allc):
            raise Violation("commit-when-disabled", f"{model}: commit sent although do_commit=False: {allc!r}", det)
        if not df and any(c.split(" ")[0] in ("save", "write", "copy") for c in allc):
            raise Violation("save-when-disabled", f"{model}: save sent although do_finalize=False: {allc!r}", det)
        # (c) per-command parameters
        if (dc, df) == (case["do_commit"], case["do_finalize"]):
            for p, c, r in zip(paths, body, refs):
                if r == "undefined":
                    labels.append("unmatched-intermediate-level")
                    continue
                if r is not None:
                    labels.append("deploy-rule-hit")
                    exp_t = float(r["timeout"]) if r["timeout"] else 30
                    exp_q = [(q[1:-1] if q.startswith("/") and q.endswith("/") else q, a, q.startswith("/") and q.endswith("/")) for q, a in r["dialogs"]]
                elif deploy:
                    exp_t, exp_q = 30, []
                else:
                    continue
                if c[2] != exp_t or c[3] != exp_q:
                    raise Violation("command-params", f"{model}: command {p!r} carries timeout={c[2]} questions={c[3]!r}; its deploy rule says "
                                    f"timeout={exp_t} questions={exp_q!r}", det)
    return labels


def nontrivial(labels):
    return "two-exits-depth2" in labels
