"""C05 - indented text is parsed by the offside rule and bad indentation is refused."""
import itertools

from hypothesis import strategies as st

from vf.core.runner import Violation
from vf.model.offside import RefParseError, indent_of, ref_parse

PID = "C05"
LEVEL = "exploration"
BUDGET = {"quick": 40000, "thorough": 1500000}
ENUM_EXHAUSTIVE = True
EXHAUSTIVE_NOTE = ("quick: every text of <=7 lines over {indent 0..6}x{a} and every text of <=5 lines over "
                   "({indent 0..6}x{a,b}) U {'#','  #c','!c',' '}; thorough: <=8 resp. <=6 lines. "
                   "The random part (longer texts, tabs, offsets, three comment-marker sets) is not exhaustive.")
RULE = ("Enumerated: all texts up to the stated length over the stated line alphabet (distinct by construction). "
        "Generated: Hypothesis texts of up to 40 lines (indent 0..9 with spaces/tabs, words a/b/c/'interface x', comment "
        "and blank lines, '#'-in-column-0 section breaks, a common leading offset, comment marker sets ('!','#'), ('!',), ('#',)). "
        "Oracle: vf.model.offside (independent offside parser): same tree, or ParserError exactly when the reference refuses. "
        "Non-trivial: the text uses >=2 different positive indentation steps, or the reference refuses it.")
ASSUMPTIONS = [
    "the text is split into lines by CommonFormatter.split (vendor-specific splitters are C04's subject)",
    "tabs and spaces each count one column, as the property's offside rule over columns implies",
]

_A1 = [" " * i + "a" for i in range(7)]
_A2 = [" " * i + w for i in range(7) for w in ("a", "b")] + ["#", "  #c", "!c", " "]


def _spaces():
    from annet.annlib.tabparser import CommonFormatter, ParserError, parse_to_tree
    return CommonFormatter().split, ParserError, parse_to_tree


_SUT = None


def enumerate_cases(tier, shard, nshards):
    n1, n2 = (7, 5) if tier == "quick" else (8, 6)
    i = 0
    for alpha, nmax in ((_A1, n1), (_A2, n2)):
        for L in range(1, nmax + 1):
            for combo in itertools.product(alpha, repeat=L):
                i += 1
                if i % nshards != shard:
                    continue
                if alpha is _A2 and all(c in _A1 for c in combo):
                    continue  # already enumerated by the first family
                yield {"text": "\n".join(combo), "comments": ["!", "#"], "enum": True}


@st.composite
def _texts(draw):
    comments = draw(st.sampled_from([["!", "#"], ["!"], ["#"]]))
    offset = draw(st.sampled_from([0, 0, 1, 2, 4]))
    n = draw(st.integers(1, 40))
    lines = []
    cur = 0
    for _ in range(n):
        kind = draw(st.integers(0, 19))
        if kind == 0:
            lines.append("#")
            cur = 0
            continue
        if kind == 1:
            lines.append(draw(st.sampled_from(["", "   ", "!", "! c", "  !c", "   # c", "\t#x"])))
            continue
        if kind == 2:
            lines.append("#" + draw(st.sampled_from(["", " x", "a"])))
            continue
        # mostly plausible structure: stay, indent by 1..3, or dedent to some smaller column
        mv = draw(st.integers(0, 9))
        if mv < 4:
            pass
        elif mv < 7:
            cur += draw(st.integers(1, 3))
        else:
            cur = draw(st.integers(0, max(0, cur)))
        cur = min(cur, 9)
        ws = " " * cur
        if cur and draw(st.integers(0, 9)) == 0:
            ws = "\t" * cur
        word = draw(st.sampled_from(["a", "b", "c", "a", "interface x", "a b"]))
        tail = draw(st.sampled_from(["", "", "", " ", "\t"]))
        lines.append(" " * offset + ws + word + tail)
    return {"text": "\n".join(lines), "comments": comments}


def strategy(tier):
    return _texts()


FUZZ_RUNS = {"quick": 0, "thorough": 400000}   # per fuzz process (coverage-guided, atheris); see vf/core/fuzz_target.py
FUZZ_MAX_LEN = 120
_FUZZ_LINE = [" ", " ", " ", "\t", "a", "b", "c", "#", "!", "\n", "\n", "x y"]


def fuzz_decode(fdp):
    """bytes -> a text over the same line alphabet as the generated part (blanks, tabs, words, comment markers), any shape"""
    comments = [["!", "#"], ["!"], ["#"]][fdp.ConsumeIntInRange(0, 2)]
    n = fdp.remaining_bytes()
    if n == 0:
        return None
    text = "".join(_FUZZ_LINE[b % len(_FUZZ_LINE)] for b in fdp.ConsumeBytes(n))
    return {"text": text, "comments": comments}


def plain(t):
    return {k: plain(v) for k, v in t.items()}


def check(case):
    global _SUT
    if _SUT is None:
        _SUT = _spaces()
    split, ParserError, parse_to_tree = _SUT
    text, comments = case["text"], tuple(case["comments"])
    try:
        ref = ("tree", ref_parse(text, comments))
    except RefParseError as e:
        ref = ("error", str(e))
    try:
        got = ("tree", plain(parse_to_tree(text, split, comments)))
    except ParserError as e:
        got = ("error", str(e))
    if ref[0] != got[0]:
        raise Violation("offside-accept-reject", f"reference says {ref[0]} ({ref[1]!r}) but parse_to_tree gives {got[0]} ({got[1]!r})",
                        {"text": text, "ref": ref, "got": got})
    if ref[0] == "tree" and ref[1] != got[1]:
        raise Violation("offside-tree", f"trees differ: reference {ref[1]!r} vs parse_to_tree {got[1]!r}",
                        {"text": text, "ref": ref[1], "got": got[1]})
    if ref[0] == "tree" and list(_order(ref[1])) != list(_order(got[1])):
        raise Violation("offside-order", "same rows but different sibling order", {"text": text})
    labels = []
    if ref[0] == "error":
        labels.append("refused")
    steps = set()
    prev = None
    for line in text.split("\n"):
        s = line.strip()
        if not s or s.startswith(tuple(comments)):
            if "#" in comments and line.startswith("#"):
                prev = None
            continue
        ind = indent_of(line)
        if prev is not None and ind > prev:
            steps.add(ind - prev)
        prev = ind
    if len(steps) >= 2:
        labels.append("two-widths")
    if "#" in text:
        labels.append("hash")
    if ref[0] == "tree" and any(v for v in ref[1].values()):
        labels.append("nested")
    return labels


def _order(t):
    for k, v in t.items():
        yield k
        yield "("
        yield from _order(v)
        yield ")"


def nontrivial(labels):
    return "refused" in labels or "two-widths" in labels
