"""C13 - JSON fragments stay inside their pointers; JSON patches reproduce the target."""
import copy
import json

from hypothesis import strategies as st

from vf.core.runner import Violation, known_or_raise
from vf.model import jsonmodel as JM
from vf.model.rnd import urandoms

PID = "C13"
LEVEL = "exploration"
BUDGET = {"quick": 10000, "thorough": 500000}
KEYS = ["a", "b", "a/b", "m~n", "x|y", "*", "A", "ab", "Ethernet0|10.0.0.0/31"]
RULE = ("Hypothesis draws a schema (a path is an object in every document that has it; nested objects <=4 deep, arrays of scalars/objects "
        "up to 14 elements, keys from {a, b, 'a/b', 'm~n', 'x|y', '*', A, ab, 'Ethernet0|10.0.0.0/31'}), documents old/new/fragment of that schema "
        "(new fresh or a mutation of old: insert/remove/swap in arrays, set/delete keys), and pointer-pattern lists with *, ?, literal and "
        "escaped (~0, ~1) parts selecting object members or whole arrays. Oracles: (1) apply_json_fragment against the independent model "
        "vf.model.jsonmodel: on selected pointers the result equals the fragment (absent => absent), outside it equals old, and merging "
        "again changes nothing; (2) round trip apply_patch(dumps(old), dumps(make_patch(old,new))) == new; (3) every leaf of "
        "apply_acl_filters(d,F) is a leaf-or-part of d; (4) chaining generators over one file (new_json_fragment_files) equals folding the "
        "model. Non-trivial: the patch has >=2 operations touching one array, or the ACL selects a strict non-empty subset of the fragment.")
ASSUMPTIONS = [
    "pointer patterns select object members or whole arrays (the documented use: /DNS_NAMESERVER, /ACL_TABLE/*); patterns descending "
    "INTO arrays are outside the domain of both apply_json_fragment and apply_acl_filters (the code rebuilds arrays as objects / raises) "
    "and are not generated",
    "ACL items are applied in list order; the model folds them in the same order",
]
FLOORS = {"array-multi-op": 0.1, "strict-subset-selected": 0.1, "special-key": 0.3}


def gen_schema(rnd, d=0):
    sch = {}
    for k in rnd.sample(KEYS, rnd.randint(1, 4)):
        x = rnd.randint(0, 99)
        if d < 3 and x < 45:
            sch[k] = ["obj", gen_schema(rnd, d + 1)]
        elif x < 60:
            sch[k] = ["arr"]
        elif x < 70:
            sch[k] = ["arrobj"]
        else:
            sch[k] = ["val"]
    return sch


def gen_doc(rnd, sch, p_skip=30):
    doc = {}
    for k, t in sch.items():
        if rnd.chance(p_skip):
            continue
        if t[0] == "obj":
            doc[k] = gen_doc(rnd, t[1], p_skip)
        elif t[0] == "arr":
            n = rnd.choice([0, 1, 2, 3, 3, 5, 12, 14])
            doc[k] = [rnd.choice(["x", "y", "z", "w", 1, 2]) for _ in range(n)]
        elif t[0] == "arrobj":
            doc[k] = [{"n": rnd.choice(["p", "q", "r"]), "v": rnd.randint(0, 3)} for _ in range(rnd.randint(0, 4))]
        else:
            doc[k] = rnd.choice(["1", "2", "3", "ab", 7, True, None, 0, False, "", {}])
    return doc


def mutate_doc(rnd, sch, doc):
    out = {}
    for k, t in sch.items():
        if k not in doc:
            if rnd.chance(20):
                out.update({k: gen_doc(rnd, {k: t}, 0).get(k)})
            continue
        if rnd.chance(12):
            continue
        v = doc[k]
        if t[0] == "obj":
            out[k] = mutate_doc(rnd, t[1], v)
        elif t[0] in ("arr", "arrobj"):
            v = list(v)
            for _ in range(rnd.randint(0, 3)):
                op = rnd.randint(0, 2)
                if op == 0 and v:
                    v.pop(rnd.randint(0, len(v) - 1))
                elif op == 1:
                    v.insert(rnd.randint(0, len(v)), rnd.choice(["x", "y", "n1", "n2"]) if t[0] == "arr" else {"n": "s", "v": rnd.randint(0, 3)})
                elif len(v) >= 2:
                    i, j = rnd.randint(0, len(v) - 1), rnd.randint(0, len(v) - 1)
                    v[i], v[j] = v[j], v[i]
            out[k] = v
        else:
            out[k] = rnd.choice(["1", "2", "9"]) if rnd.chance(40) else v
    return out


def _full_doc(sch):
    doc = {}
    for k, t in sch.items():
        doc[k] = _full_doc(t[1]) if t[0] == "obj" else (["x"] if t[0] == "arr" else ([{"n": "p", "v": 0}] if t[0] == "arrobj" else "1"))
    return doc


def _into_array_or_scalar(sch, pattern):
    """the pattern would step INTO an array in some document of the schema (stepping 'into' a scalar just selects nothing)"""
    parts = JM.pattern_parts(pattern)
    full = _full_doc(sch)
    for n in range(1, len(parts)):
        prefix = "/" + "/".join(JM.esc(x) for x in parts[:n])
        for p in JM.select(full, prefix):
            if isinstance(JM.getp(full, p), list):
                return True
    return False


def gen_acl(rnd, sch, into_arrays=False):
    pats = []
    for _ in range(rnd.randint(1, 3)):
        for _try in range(4):
            pat = _gen_pattern(rnd, sch, into_arrays)
            if into_arrays or not _into_array_or_scalar(sch, pat):
                pats.append(pat)
                break
    return pats or ["/" + JM.esc(sorted(sch)[0])]


def _gen_pattern(rnd, sch, into_arrays):
    if True:
        parts = []
        cur = sch
        while True:
            k = rnd.choice(sorted(cur))
            e = JM.esc(k)
            choice = rnd.randint(0, 9)
            if choice < 4:
                parts.append(e.replace("*", "[*]") if k == "*" else e)
            elif choice < 7:
                parts.append("*")
            elif choice < 9 and k[0] not in "*[":
                parts.append(JM.esc(k[:1]) + "*")
            else:
                parts.append("?" * len(k) if "/" not in k and "~" not in k else "*")
            t = cur[k]
            if t[0] == "obj" and rnd.chance(60):
                cur = t[1]
                continue
            if t[0] in ("arr", "arrobj") and into_arrays and rnd.chance(50):
                parts.append(rnd.choice(["*", "0", "1?", "1"]))
            break
        return "/" + "/".join(parts)


def _gen_from(rnd):
    sch = gen_schema(rnd)
    old = gen_doc(rnd, sch)
    new = mutate_doc(rnd, sch, old) if rnd.chance(65) else gen_doc(rnd, sch)
    frag = gen_doc(rnd, sch, 40)
    frag2 = gen_doc(rnd, sch, 40)
    return {"old": old, "new": new, "frag": frag, "frag2": frag2, "acl": gen_acl(rnd, sch), "acl2": gen_acl(rnd, sch),
            "filters": gen_acl(rnd, sch)}


@st.composite
def _cases(draw):
    return _gen_from(draw(urandoms()))


def fuzz_decode(fdp):
    """coverage-guided tier: the same generator driven by fuzzer-chosen bytes (vf/core/fuzz_target.py)"""
    from vf.model.rnd import FdpRandom
    return _gen_from(FdpRandom(fdp))

def strategy(tier):
    return _cases()


def _has_special(doc):
    if isinstance(doc, dict):
        return any(any(c in k for c in "/~|*") or _has_special(v) for k, v in doc.items())
    if isinstance(doc, list):
        return any(_has_special(x) for x in doc)
    return False


def _call(fn, *a):
    try:
        return ("ok", fn(*a))
    except Exception as e:  # every exception of the code under test on in-domain input is a violation (see check)
        return ("raise", "%s: %s" % (type(e).__name__, e))


def _lib_move_bug(old, new, patch):
    """patch=None: annet's make_patch raised - listed only when the library's own make_patch raises on the same documents"""
    import jsonpatch
    try:
        lib = jsonpatch.make_patch(copy.deepcopy(old), copy.deepcopy(new))
        lib_ops = lib.patch
        try:
            lib_ok = lib.apply(copy.deepcopy(old)) == new
        except Exception:
            lib_ok = False
    except Exception:
        if patch is not None:
            return False
        lib_ops, lib_ok = None, False
    if lib_ops != patch or lib_ok:
        return False
    if patch is not None and not any(o.get("op") == "move" for o in patch):
        return False

    def collision(d):
        if isinstance(d, dict):
            for k in d:
                if "/" in k:
                    head = k.split("/")[0]
                    if head in d:
                        return True
            return any(collision(v) for v in d.values())
        if isinstance(d, list):
            return any(collision(v) for v in d)
        return False
    return collision(old) or collision(new)


def _front_end_patches(old, new):
    import types
    from unittest import mock
    from annet import api, cli_args
    from annet.annlib.netdev.views.hardware import HardwareView
    from annet.types import OldNewResult
    from vf.model import sut  # noqa: F401  (sets the hardware and rulebook connectors)
    from vf.props.c19 import _Dev, _install
    _install()
    path = "/etc/sonic/config_db.json"
    out = []

    def res_for():
        return OldNewResult(device=_Dev(HardwareView("PC", "")), old_json_fragment_files={path: copy.deepcopy(old)},
                            new_json_fragment_files={path: (copy.deepcopy(new), "sudo config reload -y")})
    res = res_for()
    args = types.SimpleNamespace(acl_safe=False, indent="  ")
    with mock.patch.object(api, "res_diff_patch", lambda *a, **kw: iter([(res, None, None)])):
        shown = list(api._patch_worker("h1", args, None, None, None))
    if len(shown) != 1:
        raise Violation("front-end-patch", f"`annet patch` prints {len(shown)} documents for one changed file", {"old": old, "new": new})
    out.append(("patch", shown[0][1].encode()))
    res = res_for()
    job = api.DeployerJob.from_device(res.device, types.SimpleNamespace(acl_safe=False, entire_reload=cli_args.EntireReloadFlag.yes, dont_commit=False))
    job.parse_result(res)
    files = (job.deploy_cmds.get(res.device) or {}).get("files", {})
    if path not in files:
        raise Violation("front-end-patch", "`annet deploy` uploads nothing for a changed JSON file", {"old": old, "new": new})
    out.append(("deploy", files[path]))
    return out


def check(case):
    from annet.annlib import jsontools
    labels = []
    old, new, frag, acl = case["old"], case["new"], case["frag"], case["acl"]
    if _has_special(old) or _has_special(frag):
        labels.append("special-key")
    # ---- (1) fragment merge
    det = {"old": old, "fragment": frag, "acl": acl}
    st_, r = _call(jsontools.apply_json_fragment, copy.deepcopy(old), copy.deepcopy(frag), list(acl))
    if st_ == "raise":
        raise Violation("fragment-raises", f"apply_json_fragment raised {r} for acl {acl}", dict(det, exc=r.split(":")[0]))
    exp = JM.model_apply_fragment(old, frag, acl)
    sel_f = [p for item in acl for p in JM.select(frag, item)]
    sel_o = [p for item in acl for p in JM.select(old, item)]
    for p in sel_f:
        if JM.getp(r, p) != JM.getp(frag, p):
            raise Violation("fragment-inside", f"selected pointer {p!r}: result has {JM.getp(r, p)!r}, fragment has {JM.getp(frag, p)!r}", det)
    for p in sel_o:
        if JM.getp(frag, p) is JM.ABSENT and JM.getp(r, p) is not JM.ABSENT and not JM.under(p, sel_f) and not JM.is_prefix_of_some(p, sel_f):
            raise Violation("fragment-inside", f"selected pointer {p!r} is absent from the fragment but still present in the result", det)
    sels = sel_f + sel_o
    lo = {p: v for p, v in JM.leaves(old) if not JM.under(p, sels) and not (v == {} and JM.is_prefix_of_some(p, sels))}
    lr = {p: v for p, v in JM.leaves(r) if not JM.under(p, sels) and not (v == {} and JM.is_prefix_of_some(p, sels))}
    if lo != lr:
        raise Violation("fragment-outside", f"outside the selected pointers the result differs from old: {lr!r} vs {lo!r}"[:600], det)
    if r != exp:
        raise Violation("fragment-model", f"result {r!r} differs from the model's {exp!r}"[:600], det)
    st2, r2 = _call(jsontools.apply_json_fragment, copy.deepcopy(r), copy.deepcopy(frag), list(acl))
    if st2 == "raise" or r2 != r:
        raise Violation("fragment-not-idempotent", f"merging again changes the result: {r2!r} vs {r!r}"[:600], det)
    fl = list(JM.leaves(frag))
    nsel = sum(1 for p, _ in fl if JM.under(p, sel_f))
    if 0 < nsel < len(fl):
        labels.append("strict-subset-selected")
    # ---- (2) patch round trip
    det = {"old": old, "new": new}
    stp, patch = _call(jsontools.make_patch, copy.deepcopy(old), copy.deepcopy(new))
    if stp == "raise":
        # (third manifestation of the recorded library finding: the library's own make_patch raises on colliding key spellings)
        labels.append(known_or_raise(PID, Violation("patch-raises", f"make_patch raised {patch}",
                                                    dict(det, third_party_move_bug=_lib_move_bug(old, new, None)))))
        patch = None
    det["patch"] = patch
    by_arr = {}
    for op in (patch or []):
        parts = op["path"].split("/")
        if parts[-1].isdigit() or parts[-1] == "-":
            by_arr.setdefault("/".join(parts[:-1]), []).append(op)
    if any(len(v) >= 2 for v in by_arr.values()):
        labels.append("array-multi-op")
    sta, out = _call(jsontools.apply_patch, json.dumps(old).encode(), json.dumps(patch).encode()) if patch is not None else ("ok", json.dumps(new))
    bad = None
    if sta == "raise":
        bad = Violation("patch-does-not-apply", f"the patch made for (old,new) cannot be applied to old: {out}", det)
    elif json.loads(out) != new:
        bad = Violation("patch-wrong-result", f"applying the patch to old gives {json.loads(out)!r}, not new {new!r}"[:600], det)
    if bad is not None:
        # diagnosis for the recorded finding (root cause in the third-party jsonpatch library, not in annet): when a key containing '/'
        # ('a/b') sits next to a nested path of the same spelling (a -> b), the library's move optimisation confuses the two arrays and
        # emits a 'move' with a wrong target index (or index -1).  Listed only when (i) annet's patch IS the library's patch, unaltered,
        # (ii) the library alone fails on its own patch, (iii) the patch contains such a move and the documents such a key collision.
        bad.detail = dict(det, array_ops=bool(by_arr), third_party_move_bug=_lib_move_bug(old, new, patch))
        labels.append(known_or_raise(PID, bad))
    # ---- (2b) the same pair through the two front ends that hand a JSON patch to the outside: `annet patch` (api._patch_worker prints it)
    # and `annet deploy` (PCDeployerJob.parse_result uploads it): what leaves annet, applied to the old file, gives the new file
    if bad is None and patch is not None and old != new:
        for how, pbytes in _front_end_patches(old, new):
            sta2, out2 = _call(jsontools.apply_patch, jsontools.format_json(old).encode(), pbytes)
            if sta2 == "raise" or json.loads(out2) != new:
                raise Violation("front-end-patch", f"the JSON patch that `annet {how}` hands out does not turn the old file into the new one: "
                                f"{(out2 if sta2 == 'raise' else json.loads(out2))!r}"[:600],
                                dict(det, front_end=how, front_end_patch=json.loads(pbytes), direct_patch=patch))
        labels.append("front-ends")
    # ---- (3) filters return parts of the document
    d = old
    stf, res = _call(jsontools.apply_acl_filters, copy.deepcopy(d), list(case["filters"]))
    if stf == "raise":
        raise Violation("filter-raises", f"apply_acl_filters raised {res} for filters {case['filters']}", {"doc": d, "filters": case["filters"]})
    for p, v in JM.leaves(res):
        if v == {} and isinstance(JM.getp(d, p), dict):
            continue   # an object with fewer members is a part of the document's object (an empty result is a part of anything)
        if JM.getp(d, p) != v:
            raise Violation("filter-not-a-part", f"filter result has {p!r} = {v!r}, the document has {JM.getp(d, p)!r}", {"doc": d, "filters": case["filters"]})
    if res and res != d:
        labels.append("filter-strict")
    # ---- (4) chaining generators over one file
    from annet.generators.result import RunGeneratorResult
    from annet.types import GeneratorJSONFragmentResult
    rr = RunGeneratorResult()
    for name, f, a in (("g1", frag, acl), ("g2", case["frag2"], case["acl2"])):
        rr.add_json_fragment(GeneratorJSONFragmentResult(name=name, tags=[], path="/etc/x.json", acl=list(a), acl_safe=list(a),
                                                         config=copy.deepcopy(f), reload="r-" + name, perf=None, reload_prio=100))
    stc, files = _call(rr.new_json_fragment_files, {"/etc/x.json": copy.deepcopy(old)})
    if stc == "raise":
        raise Violation("chain-raises", f"new_json_fragment_files raised {files}", {"old": old})
    expc = JM.model_apply_fragment(JM.model_apply_fragment(old, frag, acl), case["frag2"], case["acl2"])
    if files["/etc/x.json"][0] != expc:
        raise Violation("chain-model", f"chained fragments give {files['/etc/x.json'][0]!r}, folding the model gives {expc!r}"[:600], {"old": old})
    return labels


def nontrivial(labels):
    return "array-multi-op" in labels or "strict-subset-selected" in labels
