"""C01 - deploying the patch makes the diff empty (convergence), along chains of targets."""
from hypothesis import strategies as st

from vf.core.runner import Violation
from vf.model import rulelang as RL
from vf.model.rnd import urandoms
from vf.model.devsim import SimError, apply, expect, same_state

PID = "C01"
LEVEL = "exploration"
BUDGET = {"quick": 6000, "thorough": 300000}
VENDORS = ["huawei", "cisco", "arista", "nexus", "iosxr", "h3c", "b4com", "pc", "aruba", "optixtrans", "juniper", "ribbon", "nokia", "routeros"]
# vendors whose formatter sends a FLAT stream (one self-contained command per line): word put in front of a line that sets something
FLAT = {"juniper": "set", "ribbon": "set", "nokia": "/configure"}
# RouterOS: a line starting with '/' enters a menu (= the block path), every other line is a command run in the menu entered last
MENU = {"routeros"}
RULE = ("Hypothesis draws (via strategies.randoms, every choice a Hypothesis draw) a rule tree over the rule language "
        "(literals, *, trailing ~, nested blocks depth<=3, %global leaf rule, %ordered child rules, '~ %rewrite %global' blocks, "
        "logics default/undo_redo/permanent/ignore_changes), one of 13 vendors (10 block-structured, 3 with flat set/delete streams), a device tree old with <=1 row per (rule,key) "
        "plus rows no rule knows, and a chain of 1..4 targets each a mutation of the previous one (drop / same-key value change / "
        "key change / recurse / fresh rows / reorder). Each step runs annet.api._diff_and_patch + formatter.cmd_paths and EXECUTES the "
        "command paths on vf.model.devsim; oracle: device state == expected target, second diff empty and second patch without commands "
        "(fixed point for rulebooks with permanent/ignore_changes). Non-trivial: some step's patch has >=1 removal and >=1 addition, "
        "or a command at depth>=2.")
ASSUMPTIONS = [
    "device semantics = vf/model/devsim.py: one row per (rule,key); a command replaces the row holding its key, appends new rows at the end; "
    "negation removes the row of that key with its subtree; entering a %rewrite-only block resets its content",
    "block rows and rows of permanent rules are fully determined by their key (as in every shipped rulebook)",
    "sibling rules have distinct first literal words (first-match ambiguity is not part of the stated domain)",
    "juniper / ribbon / nokia send a flat stream ('set a b c', 'delete a b c'): the patch tree is walked by the check's own walker "
    "(block path + command, no exits), that walk is executed on the simulator, and the flat stream the formatter emits must be that walk, "
    "command by command, each written as <set word> + block path + line or delete + block path + removed line",
    "RouterOS: the stream is judged for the menu every command runs in (a '/...' line enters a menu; the i-th command line is the i-th "
    "command of the check's own walk and must run in the menu of its block path); 'remove [ find ... ]' streams are not executed",
]
FLOORS = {"same-key-change": 0.2, "ordered-move": 0.04, "removal+addition": 0.5, "rewrite-reset": 0.04, "flat-stream": 0.08, "menu-stream": 0.02}


JUN_STMTS = {"system": [("host-name", "r1"), ("time-zone", "UTC"), ("domain-name", "example.net")],
             "snmp": [("location", '"dc1"'), ("contact", '"noc"'), ("description", '"edge"')]}


def _gen_annot(rnd):
    """juniper annotations ('/* text */' above a statement) over the shipped juniper rulebook: the statements stay, their annotations
    come, go and change; one plain statement changes its value so that set/delete lines stand between the annotation commands"""
    stmts = []
    for blk, items in JUN_STMTS.items():
        for name, val in items:
            if rnd.random() < 0.8:
                stmts.append([blk, name, val, rnd.choice([None, None, "old " + name, "keep " + name]), rnd.choice([None, "new " + name, "keep " + name])])
    return {"kind": "jun-annot", "vendor": "juniper", "stmts": stmts, "ntp_old": rnd.choice(["10.0.0.1", "10.0.0.2"]), "ntp_new": rnd.choice(["10.0.0.1", "10.0.0.3"])}


def _gen_from(rnd):
    if rnd.random() < 0.04:
        return _gen_annot(rnd)
    vendor = rnd.choice(VENDORS)
    # (a flat-stream device has no 'entering a block again replaces its content': %rewrite objects exist on block-structured vendors only)
    # (flat vendors: one more head that merely STARTS with the letters of their negation word - 'delete-binding-on-renegotiation' is a
    # Junos statement -, as 'notify' / 'undone' do for no / undo)
    rules = RL.gen_rules(rnd, heads=(RL.HEADS + ["deleted"]) if vendor in FLAT else None,
                         opts={"rewrite": False} if (vendor in FLAT or vendor in MENU) else None)
    ctx = RL.Ctx(rules)
    unk = 0.3 if rnd.random() < 0.4 else 0.0
    old = RL.gen_tree(rnd, ctx, unk)
    chain = []
    cur = old
    for _ in range(1 + (rnd.random() < 0.7) + (rnd.random() < 0.5) + (rnd.random() < 0.3)):
        cur = RL.mutate(rnd, ctx, cur, unk)
        chain.append(cur)
    return {"vendor": vendor, "rules": rules, "old": RL.plain(old), "chain": [RL.plain(c) for c in chain]}


@st.composite
def _cases(draw):
    return _gen_from(draw(urandoms()))


def fuzz_decode(fdp):
    """coverage-guided tier: the same generator driven by fuzzer-chosen bytes (vf/core/fuzz_target.py)"""
    from vf.model.rnd import FdpRandom
    return _gen_from(FdpRandom(fdp))

def strategy(tier):
    return _cases()


def _paths_labels(paths, rev, exitw, labels):
    has_rm = any(p[-1].startswith(rev + " ") for p in paths)
    has_add = any(not p[-1].startswith(rev + " ") and p[-1] != exitw for p in paths)
    if has_rm and has_add:
        labels.append("removal+addition")
    if any(len(p) >= 3 for p in paths):
        labels.append("depth>=2")
    if any(len(p) >= 2 for p in paths):
        labels.append("nested-cmd")


def _step_labels(ctx, old, new, labels):
    oi = {ctx.ident(r): r for r in old}
    ni = {ctx.ident(r): r for r in new}
    for k, r in ni.items():
        if k is None:
            labels.append("unknown-rows")
            continue
        if k in oi and oi[k] != r:
            labels.append("same-key-change")
            rr = ctx.classify(r)[0]
            if rr.get("logic") == "common.undo_redo":
                labels.append("undo_redo-pair")
            if rr.get("logic") == "common.ignore_changes":
                labels.append("ignore_changes-refusal")
    for k, r in oi.items():
        if k is None:
            continue
        rr = ctx.classify(r)[0]
        if k not in ni:
            if RL.is_block(rr):
                labels.append("block-removal")
            if rr.get("logic") == "common.permanent":
                labels.append("permanent-kept")
    oo = [r for r in old if (ctx.classify(r) or [{}])[0].get("ordered")]
    no = [r for r in new if (ctx.classify(r) or [{}])[0].get("ordered")]
    common_o = [r for r in oo if r in no]
    common_n = [r for r in no if r in oo]
    if common_o != common_n:
        labels.append("ordered-move")
    for r in new:
        cl = ctx.classify(r)
        if cl and RL.blockish(ctx, cl[0], r) and r in old:
            if any(c.get("rewrite") for c in cl[0]["children"]) and old[r] != new[r]:
                labels.append("rewrite-reset")
            _step_labels(ctx.child(cl[0], r), old[r], new[r], labels)


def _only_removals(pt, rev):
    return all(_only_removals(it.child, rev) if it.child else it.row.startswith(rev + " ") for it in pt.itms)


def _walk(pt, rev, prev=(), found=None):
    """the check's own reading of a patch tree: every childless item is a command under the block path of its ancestors.
    Returns (path, synthetic) pairs; synthetic = not part of the stream, see the listed finding below."""
    out = []
    removed = set()
    for it in pt.itms:
        if it.child:
            if found is not None and (rev + " " + it.row) in removed and _only_removals(it.child, rev):
                # listed finding c01-flat-recreated-block-only-removals: the block was removed just before and is to be created again,
                # but everything the patch holds below it is a removal - a flat stream then never mentions the block in a 'set' line
                found.append(list(prev + (it.row,)))
                out.append((prev + (it.row,), True))
            out.extend(_walk(it.child, rev, prev + (it.row,), found))
        else:
            removed.add(it.row)
            out.append((prev + (it.row,), False))
    return out


def _flat_paths(vendor, pt, ctx, rev, labels, det):
    """flat-stream vendors: block paths from the check's own walk; the formatter's stream must spell exactly those"""
    from vf.model import sut
    found = []
    walked = _walk(pt, rev, (), found)
    if found:
        from vf.core.runner import known_or_raise
        labels.append(known_or_raise(PID, Violation(
            "flat-block-never-created", "the patch removes the block %r and creates it again, but holds only removals below it: the flat "
            "stream sends no line that creates it (a block-structured vendor gets the block's own line)" % (found[0],),
            dict(det, recreated_block_with_only_removals=True, blocks=found))))
    paths = [p for p, _ in walked]
    setw = FLAT[vendor]
    want = []
    for p, synthetic in walked:
        if synthetic:
            continue
        c = ctx
        for blk in p[:-1]:
            cl = c.classify(blk)
            c = c.child(cl[0], blk) if cl else None
            if c is None:
                break
        cmd = p[-1]
        negated = cmd.startswith(rev + " ") and (c is None or c.classify(cmd) is None)
        if negated:
            words = [rev] + list(p[:-1]) + [cmd[len(rev) + 1:]]
            if vendor == "nokia":
                words = [setw] + words
        else:
            words = [setw] + list(p)
        want.append((" ".join(words),))
    got = [tuple(k) for k in sut.formatter(vendor).cmd_paths(pt).keys()]
    if got != want:
        det.update({"flat_stream": got, "walk_of_the_patch_tree": want})
        i = next((i for i, (a, b) in enumerate(zip(got, want)) if a != b), min(len(got), len(want)))
        raise Violation("flat-stream", "the flat command stream is not the patch tree spelled line by line: position %d: sent %r, the tree says %r"
                        % (i, got[i] if i < len(got) else None, want[i] if i < len(want) else None), det)
    if paths:
        labels.append("flat-stream")
    return [list(p) for p in paths]


def _menu_paths(vendor, pt, rev, labels, det):
    """menu streams (RouterOS): the i-th command line of the stream is the i-th command of the check's own walk of the patch tree and
    runs in the menu of that command's block path (how a command is spelled - 'remove [ find ... ]' - is not judged here)"""
    from vf.model import sut
    walked = [p for p, _ in _walk(pt, rev, (), None)]
    stream = [k[0] for k in sut.formatter(vendor).cmd_paths(pt).keys()]
    cur, got = None, []
    for line in stream:
        if line.startswith("/"):
            cur = line
        else:
            got.append((cur, line))
    want = [("/" + " ".join(p[:-1])) if len(p) > 1 else None for p in walked]
    det.update({"stream": stream, "walk_of_the_patch_tree": [list(p) for p in walked]})
    if len(got) != len(want):
        raise Violation("menu-stream", "the patch tree holds %d commands, the stream sends %d command lines: %r" % (len(want), len(got), stream), det)
    for i, ((menu, line), w) in enumerate(zip(got, want)):
        if w is not None and menu != w:
            raise Violation("menu-stream", "command %d (%r, sent as %r) belongs to the menu %r but the menu entered last at that point of the "
                            "stream is %r: %r" % (i, walked[i][-1], line, w, menu, stream), det)
    if any(w is not None for w in want):
        labels.append("menu-stream")
    return [list(p) for p in walked]


def _sends_exits(vendor):
    """the vendor's formatter writes block-exit lines at all (optixtrans has an exit word but a formatter without exits: its shipped
    rulebook has no nested rules)"""
    from annet.annlib.tabparser import BlockExitFormatter
    from vf.model import sut
    return isinstance(sut.formatter(vendor), BlockExitFormatter)


def _stream_context(paths, exitw, det):
    """block-structured vendors: the device gets the LAST element of every path, one line after another, and keeps its own notion of
    the block it is in - a block header enters it, the exit word leaves one level.  Before each command the device must stand in the
    block the command's path names: after p the device is in p (p was a header), p[:-1] (a plain line) or p[:-2] (p was an exit)."""
    prev = None
    for q in paths:
        q = tuple(q)
        if prev is None:
            ok = len(q) == 1
        elif prev[-1] == exitw and len(prev) >= 2:
            ok = q[:-1] == prev[:-2]
        else:
            ok = q[:-1] in (prev, prev[:-1])
        if not ok:
            det["paths"] = [list(x) for x in paths]
            raise Violation("stream-context", "the command %r belongs to the block %r, but after the line before it (%r) the device stands in %s"
                            % (q[-1], list(q[:-1]), None if prev is None else prev[-1],
                               "the top level" if prev is None else (list(prev[:-2]) if (prev[-1] == exitw and len(prev) >= 2) else "%r or %r" % (list(prev), list(prev[:-1])))), det)
        prev = q


def _check_annot(case):
    from annet.annlib.netdev.views.hardware import HardwareView
    from annet.annlib.tabparser import parse_to_tree
    from vf.model import sut
    hw = HardwareView("Juniper MX960", "")
    f = sut.registry().match(hw).make_formatter()

    def text(side):
        out = []
        for blk in JUN_STMTS:
            rows = [x for x in case["stmts"] if x[0] == blk]
            if not rows:
                continue
            out.append(blk + " {")
            for _, name, val, co, cn in rows:
                c = co if side == 0 else cn
                if c is not None:
                    out.append("    /* %s */" % c)
                out.append("    %s %s;" % (name, val))
            out.append("}")
        out += ["system {", "    name-server %s;" % (case["ntp_old"] if side == 0 else case["ntp_new"]), "}"]
        return "\n".join(out) + "\n"
    old, new = parse_to_tree(text(0), f.split), parse_to_tree(text(1), f.split)
    d, pt = sut.diff_and_patch_hw(hw, old, new)
    stream = [k[0] for k in sut.registry().match(hw).make_formatter(indent="").cmd_paths(pt).keys()]
    det = {"old_text": text(0), "new_text": text(1), "stream": stream}
    got, i = [], 0
    while i < len(stream):
        line = stream[i]
        if line.startswith("edit "):
            if i + 2 >= len(stream) or not stream[i + 1].startswith("annotate ") or stream[i + 2] != "exit":
                raise Violation("annotation-commands", "an annotation is set by three lines - edit <block>, annotate <statement> \"text\", exit -; "
                                "the stream has %r at position %d: %r" % (stream[i:i + 3], i, stream), det)
            w = stream[i + 1].split(" ", 2)
            got.append((line[5:], w[1], w[2].strip('"')))
            i += 3
        elif line.startswith("annotate ") or line == "exit":
            raise Violation("annotation-commands", "%r at position %d is not inside an edit / annotate / exit triple: %r" % (line, i, stream), det)
        else:
            i += 1
    want = [(blk, name, cn or "") for blk, name, val, co, cn in case["stmts"] if co != cn]
    if sorted(got) != sorted(want):
        raise Violation("annotation-commands", "annotations to set: %r, the stream sets %r" % (sorted(want), sorted(got)), det)
    labels = ["jun-annotations", "vendor:juniper"]
    if len(want) >= 2:
        labels.append("two-annotation-changes")
    if len({b for b, _, _ in want}) < len(want):
        labels.append("two-annotations-in-one-block")
    return labels


def check(case):
    if case.get("kind") == "jun-annot":
        return _check_annot(case)
    from vf.model import sut
    vendor = case["vendor"]
    rules = case["rules"]
    ctx = RL.Ctx(rules)
    rev, exitw = sut.vendor_words(vendor)
    rb = sut.make_rb(RL.rule_text(rules), vendor)
    dev = RL.to_odict(case["old"])
    labels = ["chain-%d" % len(case["chain"]), "vendor:" + vendor]
    strict = not RL.has_logic(rules, ("common.permanent", "common.ignore_changes"))
    for step, tgt in enumerate(case["chain"]):
        tgt = RL.to_odict(tgt)
        _step_labels(ctx, dev, tgt, labels)
        diff, pt = sut.diff_and_patch(vendor, dev, tgt, rb)
        det = {"step": step, "rulebook": RL.rule_text(rules)}
        if vendor in MENU:
            paths = _menu_paths(vendor, pt, rev, labels, det)
        else:
            paths = _flat_paths(vendor, pt, ctx, rev, labels, det) if vendor in FLAT else sut.cmd_paths(vendor, pt)
        det["paths"] = paths
        _paths_labels(paths, rev, exitw, labels)
        if exitw and vendor not in FLAT and vendor not in MENU and _sends_exits(vendor):
            _stream_context(paths, exitw, det)
        if vendor in MENU:
            # RouterOS sections are menus, not objects that are created and removed, and a removal is spelled as a query
            # ('remove [ find ... ]'): the stream is judged for where each command runs (above), it is not executed on the simulator
            dev = tgt
            continue
        stats = {}
        try:
            got = apply(paths, dev, ctx, rev, exitw, stats, implicit_blocks=vendor in FLAT or vendor in MENU)
        except SimError as e:
            raise Violation("exec-error", f"step {step}: {e}", det)
        if stats.get("undo-nothing"):
            labels.append("undo-of-absent-row")
        exp = expect(dev, tgt, ctx)
        why = same_state(got, exp, ctx)
        if why:
            det.update({"device_after": RL.plain(got), "expected": RL.plain(exp)})
            raise Violation("no-convergence", f"step {step}: after executing the patch the device is not the target: {why}", det)
        d2, pt2 = sut.diff_and_patch(vendor, got, tgt, rb)
        p2 = (_menu_paths(vendor, pt2, rev, [], det) if vendor in MENU else
              _flat_paths(vendor, pt2, ctx, rev, [], det) if vendor in FLAT else sut.cmd_paths(vendor, pt2))
        if strict:
            if d2 or p2:
                det.update({"second_diff": repr(d2)[:400], "second_paths": p2})
                raise Violation("second-run-not-empty", f"step {step}: second diff/patch after convergence is not empty: {p2 or d2!r}"[:600], det)
        elif p2:
            try:
                got2 = apply(p2, got, ctx, rev, exitw, implicit_blocks=vendor in FLAT or vendor in MENU)
            except SimError as e:
                raise Violation("exec-error", f"step {step} (second patch): {e}", det)
            if same_state(got2, got, ctx):
                det.update({"second_paths": p2})
                raise Violation("not-a-fixed-point", f"step {step}: second patch changes the device again", det)
            labels.append("second-patch-noop")
        dev = got
    return labels


def nontrivial(labels):
    return "removal+addition" in labels or "depth>=2" in labels or "two-annotation-changes" in labels
