"""C04 - vendor text and config trees round-trip for every supported vendor."""
import os
from collections import OrderedDict as odict

from hypothesis import strategies as st

from vf.core.runner import Violation
from vf.model.rnd import urandoms

PID = "C04"
LEVEL = "exploration"
BUDGET = {"quick": 21000, "thorough": 1400000}
VENDORS = ["huawei", "h3c", "optixtrans", "cisco", "nexus", "iosxr", "arista", "aruba", "b4com", "juniper", "ribbon", "nokia",
           "routeros", "pc"]
RULE = ("Hypothesis draws a vendor (all 14 registered) and a tree in that vendor's well-formed domain: depth<=5, 1..4 rows per level, rows "
        "of 1..4 words from a word pool with digits, dots, slashes, dashes, quotes-free text (never starting with a comment marker, never a "
        "vendor block delimiter); RouterOS: section words nested <=3 with leaf rows below, before and after subsections; cisco-like: "
        "'address-family ...' blocks as last child of their parent and in the middle; nokia with and without a 'configure' wrapper. "
        "Oracle (round trip): parse_to_tree(join_v(t), split_v) == t with order, join_v(parse(join_v(t))) == join_v(t), and "
        "format_config_blocks (what `annet gen` prints) parses back to t. Non-trivial: depth>=3 and >=2 blocks at some level.")
ASSUMPTIONS = [
    "cisco (IOS) trees: every row starting with 'address-family' is a block whose last child is 'exit-address-family' - the form device "
    "configs and all shipped cisco test data have, and which CiscoFormatter.split relies on; no bare 'exit' rows",
    "rows avoid each vendor's syntax delimiters (';', '{', '}', leading '/', trailing policy-end words), as the property's domain states",
    "trees, not raw device text: device-text quirks (comments, exit lines) are covered by the fixed-point part only through join output",
]
FLOORS = {"depth>=3": 0.3}

W = ["aa", "bb", "cc", "x1", "y-2", "z/3", "q.4", "10.0.0.1/24", "description", "ip", "vlan", "interface", "Eth1/0/1", "name=foo",
     "address-family", "ipv4", "route-policy", "if", "then", "xpl", "peer", "group", "set", "add", "family", "unit", "0", "AS65000", "rule",
     "permit", "tcp", "eq", "22"]
ROS_S = ["ip", "address", "interface", "bridge", "port", "system", "user", "snmp", "routing", "filter"]
ROS_L = ["add a=1", "add b=2 c=3", "set x=y", "add name=q", "set [ find default=yes ] disabled=yes", "add chain=input action=accept"]


KEYWORD_ROWS = {   # rows that are keywords of the vendor's own syntax elsewhere, legal as ordinary nested lines
    "nokia": ["configure", "exit", "info"], "juniper": ["configure", "exit", "top"], "ribbon": ["configure", "exit"],
    "huawei": ["return", "system-view"], "h3c": ["return"], "pc": ["exit", "configure"], "routeros": [],
    # IOS-XR drops rows ENDING with its policy terminators; rows merely starting with those words are ordinary lines
    "iosxr": ["end-policy-map", "endif-marker x", "end-set-legacy knob", "description uplink endif", "remark see end-policy"],
    "cisco": ["endif-marker x"], "arista": ["end-policy-map"],
}


def _row(rnd, vendor):
    kw = KEYWORD_ROWS.get(vendor)
    if kw and rnd.chance(6):
        return rnd.choice(kw)
    if vendor == "cisco" and rnd.chance(18):
        # address-family sections are frequent in IOS configs, sometimes one inside another (vrf -> address-family -> ...)
        return "address-family " + rnd.choice(["ipv4", "ipv6", "vpnv4 x", "ipv4 vrf A", "l2vpn evpn"])
    n = rnd.randint(1, 4)
    ws = [rnd.choice(W) for _ in range(n)]
    row = " ".join(ws)
    if vendor in ("huawei", "h3c") and row.startswith(("end-list", "endif", "end-filter")):
        row = "x " + row
    return row


def _gen(rnd, vendor, d=0, maxd=4):
    t = odict()
    for _ in range(rnd.randint(1, 4)):
        row = _row(rnd, vendor)
        if vendor == "nokia" and d == 0 and row == "configure":
            row = "configure x"   # a TOP-LEVEL 'configure' is the wrapper the nokia splitter strips by design; nested ones are ordinary rows
        if vendor in ("juniper", "ribbon", "nokia") and d >= 1 and row not in t and rnd.chance(12):
            # an annotation ('/* text */' printed on the line above the statement or block it belongs to): in the tree it is the row
            # '/* {"row": ..., "comment": ...} */' standing right before the annotated row
            import json as _json
            t["/* " + _json.dumps({"row": row, "comment": rnd.choice(["uplink to core", "do not touch", "x"])}) + " */"] = odict()
        t[row] = _gen(rnd, vendor, d + 1, maxd) if d < maxd and rnd.chance(45) else odict()
        if vendor == "cisco" and row.startswith("address-family"):
            # IOS domain: an address-family section is closed by exit-address-family (its last child); the splitter relies on it
            t[row].pop("exit-address-family", None)
            t[row]["exit-address-family"] = odict()
    return t


def _gen_ros(rnd, d=0):
    t = odict()
    leaf_first = rnd.chance(30)
    if d > 0 and leaf_first:
        for l in rnd.sample(ROS_L, rnd.randint(1, 2)):
            t[l] = odict()
    prev = None
    for s in rnd.sample(ROS_S, rnd.randint(1, 3)):
        if prev is not None and rnd.chance(30):
            t[s] = _to_odict(plain(prev))   # sibling sections with equal content (e.g. the same firewall rules under ip and ipv6)
        elif d < 2 and rnd.chance(50):
            t[s] = _gen_ros(rnd, d + 1)
        else:
            t[s] = odict((l, odict()) for l in rnd.sample(ROS_L, rnd.randint(1, 3)))
        prev = t[s]
    if d > 0 and not leaf_first and rnd.chance(35):
        for l in rnd.sample(ROS_L, rnd.randint(1, 2)):
            t.setdefault(l, odict())
    return t


def plain(t):
    return {k: plain(v) for k, v in t.items()}


def _gen_from(rnd):
    vendor = rnd.choice(os.environ.get("VF_C04_VENDORS", "").split(",") if os.environ.get("VF_C04_VENDORS") else VENDORS)
    if vendor == "routeros":
        t = _gen_ros(rnd)
    else:
        t = _gen(rnd, vendor, maxd=rnd.choice([1, 2, 3, 4, 4]))
    wrapper = vendor == "nokia" and rnd.chance(40)
    return {"vendor": vendor, "tree": plain(t), "indent": rnd.choice(["  ", "  ", " ", "    ", "\t"]), "nokia_wrapper": wrapper}


@st.composite
def _cases(draw):
    return _gen_from(draw(urandoms()))


def fuzz_decode(fdp):
    """coverage-guided tier: the same generator driven by fuzzer-chosen bytes (vf/core/fuzz_target.py)"""
    from vf.model.rnd import FdpRandom
    return _gen_from(FdpRandom(fdp))

def strategy(tier):
    return _cases()


def _order(t):
    out = []
    for k, v in t.items():
        out.append((k, _order(v)))
    return out


def _depth(t):
    return 0 if not t else 1 + max(_depth(v) for v in t.values())


def _two_blocks(t):
    if sum(1 for v in t.values() if v) >= 2:
        return True
    return any(_two_blocks(v) for v in t.values())


def check(case):
    from annet.annlib.netdev.views.hardware import HardwareView
    from annet.annlib.tabparser import ParserError, parse_to_tree
    from annet.gen import format_config_blocks
    from vf.model import sut
    vendor = case["vendor"]
    tree = case["tree"]
    t = _to_odict(tree)
    # the patch/deploy path asks for an indent-less formatter first; whatever was requested before, a later request gets what it asks for
    sut.registry()[vendor].make_formatter(indent="")
    fmt = sut.registry()[vendor].make_formatter(indent=case["indent"])
    labels = ["vendor:" + vendor]
    dflt = sut.registry()[vendor].make_formatter()
    tdef = dflt.join(_to_odict(case["tree"]))
    if not case.get("nokia_wrapper"):
        from annet.annlib.tabparser import parse_to_tree as _p
        if _order(_p(tdef, dflt.split)) != _order(_to_odict(case["tree"])):
            raise Violation("roundtrip", f"{vendor}: with the default formatter (requested after an indent-less one) parse(join(t)) != t",
                            {"vendor": vendor, "text": tdef})
    if _depth(tree) >= 3:
        labels.append("depth>=3")
    if _two_blocks(tree):
        labels.append("two-blocks")
    det = {"vendor": vendor}
    try:
        text = fmt.join(t)
        if case.get("nokia_wrapper"):
            # the shape a device prints: '#' remark lines in front of the configure block, at column 0 between its sections, and after it
            body = []
            for l in text.split("\n"):
                if body and l and not l[0].isspace() and l != "}":
                    body.append("# ---- section")
                body.append(case["indent"] + l)
            text = "# TiMOS-C-20.10.R1 cpm/hops64\n# Generated TUE JAN 01 00:00:00 2030 UTC\nconfigure {\n" + "\n".join(body) + "\n}\n# Finished"
            labels.append("nokia-wrapper")
        det["text"] = text
        back = parse_to_tree(text, fmt.split)
    except ParserError as e:
        raise Violation("roundtrip-error", f"{vendor}: text rendered from a tree is refused by the parser: {e}", det)
    if _order(back) != _order(t):
        det["parsed"] = plain(back)
        raise Violation("roundtrip", f"{vendor}: parse(join(t)) != t: got {plain(back)!r}"[:600], det)
    text2 = fmt.join(back)
    if not case.get("nokia_wrapper") and text2 != text:
        raise Violation("fixed-point", f"{vendor}: join(parse(s)) != s", det)
    back2 = parse_to_tree(text2, fmt.split)
    if _order(back2) != _order(t):
        raise Violation("fixed-point", f"{vendor}: re-rendering and re-parsing changes the tree", det)
    # what `annet gen` prints (formatter chosen from the hardware)
    hw = sut.registry()[vendor].hardware
    if sut.registry().match(hw).NAME == vendor:
        text3 = format_config_blocks(t, hw, case["indent"])
        back3 = parse_to_tree(text3, sut.registry().match(hw).make_formatter().split)
        if _order(back3) != _order(t):
            raise Violation("roundtrip", f"{vendor}: `annet gen` output does not parse back to the generated tree", det)
    return labels


def _to_odict(t):
    return odict((k, _to_odict(v)) for k, v in t.items())


def nontrivial(labels):
    return "depth>=3" in labels and "two-blocks" in labels
