"""C14 - shipped routing-policy generators emit ACL-covered, self-consistent config."""
import re
import types

from hypothesis import strategies as st

from vf.core.runner import Violation, known_or_raise
from vf.model.rnd import urandoms

PID = "C14"
LEVEL = "exploration"
BUDGET = {"quick": 6000, "thorough": 150000}
RULE = ("Hypothesis draws RouteMap programs built with the documented DSL: 1..3 policies x 1..3 numbered statements; conditions from R.* "
        "(community / large_community / extcommunity_rt / extcommunity_soo has / has_any over 1..3 lists of one type, match_v4/match_v6 with "
        "or_longer, as_path_filter, as_path_length with ==,>=,<=,between, rd, metric, protocol, interface, local_pref, family) and actions from "
        "rule.* (community / large_community / extcommunity / extcommunity_rt / extcommunity_soo add/remove/set, as_path "
        "prepend/set/delete/expand/expand_last_as, next_hop.*, set_metric/add_metric, set_local_pref, set_tag, set_origin, set_metric_type, "
        "set_mpls_label, set_rpki_valid_state, set_resolution) over a fixed entity set (community lists BASIC/RT/SOO/LARGE x AND/OR x regex "
        "flag, v4/v6 prefix lists, as-path filters, RD filters), for vendor huawei, arista (PartialGenerators through "
        "annet.generators._run_partial_generator with use_acl=True) and cumulus (generate_cumulus_rpl). A second case kind holds ONE statement "
        "with ONE action for the error-atomicity clause. Oracles: no GeneratorError caused by AclError; every yielded row is found in the "
        "parsed tree under the block path recorded at yield time; every named list a policy line refers to is defined under the same name by "
        "the list generators fed the same inputs; an unsupported construct raises (NotImplementedError/RuntimeError/ValueError) before any "
        "line for that action is emitted. Non-trivial: a reference to a derived name (or_longer override or _OR_ union) or an unsupported construct.")
ASSUMPTIONS = [
    "inputs respect the documented preconditions: referenced lists exist, prefix lists are referenced with the matching address family, "
    "statements are numbered, HAS_ANY unions are over lists of one type and one regex flag, community fields are used with lists of their type",
    "NotImplementedError / RuntimeError / ValueError are the documented way to refuse an unsupported construct; any other exception is a failure",
]
FLOORS = {"derived-name-ref": 0.1, "unsupported-construct": 0.05, "single-action": 0.2, "has-refs": 0.15}

VENDORS = ["huawei", "arista", "cumulus"]
COMM = {
    "CB1": ("BASIC", "OR", False, ["65000:1", "65000:2"]), "CB2": ("BASIC", "AND", False, ["65000:3", "65535:0"]),
    "CBR": ("BASIC", "OR", True, ["^65000:.*$"]),
    "CR1": ("RT", "OR", False, ["100:1", "100:2"]), "CR2": ("RT", "AND", False, ["100:3"]),
    "CS1": ("SOO", "OR", False, ["200:1"]), "CS2": ("SOO", "OR", False, ["200:2", "200:3"]),
    "CL1": ("LARGE", "OR", False, ["1:2:3"]), "CL2": ("LARGE", "AND", False, ["1:2:4", "1:2:5"]),
}
BY_TYPE = {"community": ["CB1", "CB2", "CBR"], "extcommunity_rt": ["CR1", "CR2"], "extcommunity_soo": ["CS1", "CS2"],
           "large_community": ["CL1", "CL2"]}
PL4, PL6 = ["PL4_A", "PL4_B"], ["PL6_A"]
ASP, RDF = ["ASP1", "ASP2", "ASP3", "ASP4"], ["RD1", "RD2"]
EXPECTED = (NotImplementedError, RuntimeError, ValueError)


# ------------------------------------------------------------------ program generation
def gen_cond(rnd, tame=False):
    k = rnd.choice([0, 0, 1, 2, 3, 4, 4, 5, 6, 6, 7, 9, 10, 11]) if tame else rnd.randint(0, 13)
    if k < 4:
        f = ["community", "large_community", "extcommunity_rt", "extcommunity_soo"][k]
        pool = [n for n in BY_TYPE[f] if n != "CBR"] if rnd.chance(80) else BY_TYPE[f]
        names = rnd.sample(pool, rnd.randint(1, min(3, len(pool))))
        if tame:
            return [f, "has_any" if f in ("community", "extcommunity_rt") else "has", names[:1] if rnd.chance(60) else names]
        return [f, rnd.choice(["has", "has_any"]), names]
    if k == 4:
        return ["match_v4", rnd.sample(PL4, rnd.randint(1, 2)), rnd.choice([[None, None], [None, None], [24, None], [None, 32], [25, 30], [0, None], [None, 0], [0, 0], [0, 32]])]
    if k == 5:
        return ["match_v6", ["PL6_A"], rnd.choice([[None, None], [64, None], [None, 128], [0, None], [0, 0]])]
    if k == 6:
        return ["as_path_filter", rnd.choice(ASP)]
    if k == 7:
        op = rnd.choice(["==", ">=", "<=", "between"])
        return ["as_path_length", op, [1, 5] if op == "between" else rnd.randint(1, 9)]
    if k == 8:
        return ["rd", rnd.sample(RDF, rnd.randint(1, 2))]
    if k == 9:
        return ["metric", rnd.randint(1, 100)]
    if k == 10:
        return ["protocol", rnd.choice(["bgp", "static"])]
    if k == 11:
        return ["interface", "Loopback0"]
    if k == 12:
        return ["local_pref", rnd.randint(1, 200)]
    return ["family", rnd.choice([4, 6])]


def gen_action(rnd, tame=False):
    if tame:
        k = rnd.choice([0, 0, 1, 4, 5, 7, 8, 9, 10, 11, 12, 13])
        if k == 4:
            # the unified extcommunity field with one RT list (no other statement need mention that list)
            return ["extcommunity", [[rnd.choice(["add", "remove", "remove", "set"]), [rnd.choice(["CR1", "CR2"])]]]]
        if k in (0, 1):
            f = ["community", "large_community"][k]
            pool = [n for n in BY_TYPE[f] if n != "CBR"]
            return [f, [[rnd.choice(["add", "add", "remove", "set"]) if k == 0 else "add", rnd.sample(pool, rnd.randint(1, 2))]]]
        if k == 5:
            return ["as_path", [["prepend", [str(rnd.randint(65000, 65010))]]]]
        if k == 7:
            return ["next_hop", "ipv4_addr", "10.0.0.1"]
    else:
        k = rnd.randint(0, 16)
    if k < 5:
        f = ["community", "large_community", "extcommunity_rt", "extcommunity_soo", "extcommunity"][k]
        pool = BY_TYPE[f] if f != "extcommunity" else ["CR1", "CR2", "CS1", "CS2"]
        pool = [n for n in pool if n != "CBR"]
        calls = []
        for _ in range(rnd.randint(1, 2)):
            calls.append([rnd.choice(["add", "remove", "set"]), rnd.sample(pool, rnd.randint(0 if rnd.chance(10) else 1, min(2, len(pool))))])
        return [f, calls]
    if k == 5 or k == 6:
        calls = []
        for _ in range(rnd.randint(1, 2)):
            m = rnd.choice(["prepend", "set", "delete", "expand", "expand_last_as", "prepend", "set"])
            calls.append([m, "65001" if m == "expand_last_as" else [str(rnd.randint(65000, 65010)) for _ in range(rnd.randint(0 if m == "set" else 1, 2))]])
        return ["as_path", calls]
    if k == 7:
        t = rnd.choice(["self", "discard", "peer", "ipv4_addr", "ipv6_addr", "mapped_ipv4"])
        return ["next_hop", t, {"ipv4_addr": "10.0.0.1", "ipv6_addr": "2001:db8::1", "mapped_ipv4": "10.0.0.2"}.get(t, "")]
    if k == 8:
        return ["set_metric", rnd.randint(1, 100)]
    if k == 9:
        return ["add_metric", rnd.randint(1, 100)]
    if k == 10:
        return ["set_local_pref", rnd.randint(1, 200)]
    if k == 11:
        return ["set_tag", rnd.randint(1, 9)]
    if k == 12:
        return ["set_origin", rnd.choice(["igp", "incomplete"])]
    if k == 13:
        return ["set_metric_type", rnd.choice(["type-1", "internal"])]
    if k == 14:
        return ["set_mpls_label"]
    if k == 15:
        return ["set_rpki_valid_state", "valid"]
    return ["set_resolution", "x"]


def _dedup_fields(items, key):
    seen, out = set(), []
    for it in items:
        if key(it) in seen:
            continue
        seen.add(key(it))
        out.append(it)
    return out


def _gen_from(rnd):
    vendor = rnd.choice(VENDORS)
    if rnd.chance(35):
        return {"kind": "single", "vendor": vendor, "action": gen_action(rnd)}
    pols = []
    tame = rnd.chance(70)
    for p in range(rnd.randint(1, 3)):
        sts = []
        for s in range(rnd.randint(1, 3)):
            conds = _dedup_fields([gen_cond(rnd, tame) for _ in range(rnd.randint(0, 3))], lambda c: c[0])
            acts = _dedup_fields([gen_action(rnd, tame) for _ in range(rnd.randint(0, 3))],
                                 lambda a: "metric" if a[0] in ("set_metric", "add_metric") else a[0])
            sts.append({"number": (s + 1) * 10, "result": rnd.choice(["allow", "deny", "next"]), "conds": conds, "actions": acts})
        pols.append({"name": "POL%d" % p, "statements": sts})
    return {"kind": "program", "vendor": vendor, "policies": pols}


@st.composite
def _cases(draw):
    return _gen_from(draw(urandoms()))


def fuzz_decode(fdp):
    """coverage-guided tier: the same generator driven by fuzzer-chosen bytes (vf/core/fuzz_target.py)"""
    from vf.model.rnd import FdpRandom
    return _gen_from(FdpRandom(fdp))

def strategy(tier):
    return _cases()


# ------------------------------------------------------------------ building the DSL objects
def build_routemap(policies):
    from annet.rpl import R, RouteMap
    rm = RouteMap()

    def cond_obj(c):
        f = c[0]
        if f in BY_TYPE:
            fac = getattr(R, f)
            return fac.has(*c[2]) if c[1] == "has" else fac.has_any(*c[2])
        if f == "match_v4":
            return R.match_v4(*c[1], or_longer=tuple(c[2]))
        if f == "match_v6":
            return R.match_v6(*c[1], or_longer=tuple(c[2]))
        if f == "as_path_filter":
            return R.as_path_filter(c[1])
        if f == "as_path_length":
            op, v = c[1], c[2]
            return {"==": lambda: R.as_path_length == v, ">=": lambda: R.as_path_length >= v, "<=": lambda: R.as_path_length <= v,
                    "between": lambda: R.as_path_length.between_included(tuple(v))}[op]()
        if f == "rd":
            return R.rd.has(*c[1])
        if f == "metric":
            return R.metric == c[1]
        if f == "protocol":
            return R.protocol == c[1]
        if f == "interface":
            return R.interface == c[1]
        if f == "local_pref":
            return R.local_pref < c[1]
        if f == "family":
            return R.family == c[1]
        raise AssertionError(f)

    def apply_action(rule, a):
        import warnings
        f = a[0]
        with warnings.catch_warnings():
            warnings.simplefilter("ignore")
            if f in ("community", "large_community", "extcommunity_rt", "extcommunity_soo", "extcommunity"):
                b = getattr(rule, f)
                for m, names in a[1]:
                    getattr(b, m)(*names)
            elif f == "as_path":
                for m, vals in a[1]:
                    if m == "expand_last_as":
                        rule.as_path.expand_last_as(vals)
                    else:
                        getattr(rule.as_path, m)(*vals)
            elif f == "next_hop":
                if a[2]:
                    getattr(rule.next_hop, a[1])(a[2])
                else:
                    getattr(rule.next_hop, a[1])()
            elif f == "set_mpls_label":
                rule.set_mpls_label()
            else:
                getattr(rule, f)(a[1])

    for pol in policies:
        def func(device, route, pol=pol):
            for stt in pol["statements"]:
                with route(*[cond_obj(c) for c in stt["conds"]], number=stt["number"], name="s%d" % stt["number"]) as rule:
                    for a in stt["actions"]:
                        apply_action(rule, a)
                    getattr(rule, stt["result"])()
        rm(func, name=pol["name"])
    return rm


def entities():
    from annet.rpl_generators import AsPathFilter, CommunityList, CommunityLogic, CommunityType, RDFilter, ip_prefix_list
    comms = [CommunityList(n, m, getattr(CommunityType, t), getattr(CommunityLogic, lg), rx) for n, (t, lg, rx, m) in COMM.items()]
    pls = [ip_prefix_list("PL4_A", ["10.0.0.0/8", "192.168.0.0/16"]), ip_prefix_list("PL4_B", ["172.16.0.0/12"], (16, 24)),
           ip_prefix_list("PL6_A", ["2001:db8::/32"])]
    asp = [AsPathFilter("ASP1", ["65000", ".*"]), AsPathFilter("ASP2", [".*", "65001", "65002"]),
           AsPathFilter("ASP3", [".*"]), AsPathFilter("ASP4", [".*", ".*"])]   # (filters that let every path through)
    rdf = [RDFilter("RD1", 1, ["100:1"]), RDFilter("RD2", 2, ["100:2", "100:3"])]
    return comms, pls, asp, rdf


class _Dev:
    def __init__(self, model, soft=""):
        from annet.annlib.netdev.views.hardware import HardwareView
        self.hw, self.hostname, self.fqdn, self.id, self.tags = HardwareView(model, soft), "d", "d.x", 1, []


def make_generators(policies_fn):
    from annet.rpl_generators import (AsPathFilterGenerator, CommunityListGenerator, CumulusPolicyGenerator, PrefixListFilterGenerator,
                                      RDFilterFilterGenerator, RoutingPolicyGenerator)
    comms, pls, asp, rdf = entities()
    sto = types.SimpleNamespace(flush_perf=lambda: {})
    rec = []

    class Rec:
        """records the block path of every yielded row (oracle 2)"""

        def _append_text(self, text):
            before = len(self._rows)
            super()._append_text(text)
            # block() pushes the header onto _block_path before appending it: the header itself lives one level up
            bp = tuple(self._block_path) if len(self._indents) == len(self._block_path) else tuple(self._block_path[:-1])
            for row in self._rows[before:]:
                rec.append((type(self).__name__, bp, row.strip(), len(self._indents)))

    class PG(Rec, RoutingPolicyGenerator):
        def get_policies(self, d): return policies_fn(d)
        def get_community_lists(self, d): return comms
        def get_prefix_lists(self, d): return pls
        def get_rd_filters(self, d): return rdf

    class CG(Rec, CommunityListGenerator):
        def get_policies(self, d): return policies_fn(d)
        def get_community_lists(self, d): return comms

    class LG(Rec, PrefixListFilterGenerator):
        def get_policies(self, d): return policies_fn(d)
        def get_prefix_lists(self, d): return pls

    class AG(Rec, AsPathFilterGenerator):
        def get_policies(self, d): return policies_fn(d)
        def get_as_path_filters(self, d): return asp

    class RG(Rec, RDFilterFilterGenerator):
        def get_policies(self, d): return policies_fn(d)
        def get_rd_filters(self, d): return rdf

    class CUM(CumulusPolicyGenerator):
        def get_policies(self, d): return policies_fn(d)
        def get_community_lists(self, d): return comms
        def get_prefix_lists(self, d): return pls
        def get_as_path_filters(self, d): return asp
    return {"policy": PG(sto), "community": CG(sto), "prefix": LG(sto), "aspath": AG(sto), "rd": RG(sto), "cumulus": CUM()}, rec


# ------------------------------------------------------------------ refs / defs
def refs_defs(vendor, rows):
    """rows: flat list of config rows (no nesting needed); -> (refs, defs) as sets of (kind, name)"""
    refs, defs = set(), set()
    for r in rows:
        w = r.split()
        if vendor == "huawei":
            if r.startswith("if-match community-filter "):
                refs.add(("community", w[2]))
            elif r.startswith("if-match large-community-filter "):
                refs.add(("large", w[2]))
            elif r.startswith("if-match extcommunity-filter "):
                refs.add(("ext-rt", w[2]))
            elif r.startswith("if-match extcommunity-list soo "):
                refs.add(("ext-soo", w[3]))
            elif r.startswith("apply comm-filter "):
                refs.add(("community", w[2]))
            elif r.startswith("apply extcommunity-filter rt "):
                refs.add(("ext-rt", w[3]))
            elif r.startswith("if-match ip-prefix "):
                refs.add(("pl4", w[2]))
            elif r.startswith("if-match ipv6 address prefix-list "):
                refs.add(("pl6", w[4]))
            elif r.startswith("if-match as-path-filter "):
                refs.add(("aspath", w[2]))
            elif r.startswith("if-match rd-filter "):
                refs.add(("rd", w[2]))
            elif r.startswith("ip community-filter "):
                defs.add(("community", w[3]))
            elif r.startswith("ip large-community-filter "):
                defs.add(("large", w[3]))
            elif r.startswith("ip extcommunity-filter "):
                defs.add(("ext-rt", w[3]))
            elif r.startswith("ip extcommunity-list soo "):
                defs.add(("ext-soo", w[4]))
            elif r.startswith("ip ip-prefix "):
                defs.add(("pl4", w[2]))
            elif r.startswith("ip ipv6-prefix "):
                defs.add(("pl6", w[2]))
            elif r.startswith("ip as-path-filter "):
                defs.add(("aspath", w[2]))
            elif r.startswith("ip rd-filter "):
                defs.add(("rd", w[2]))
        elif vendor == "arista":
            def name_after(i):
                return w[i + 1] if w[i] == "regexp" else w[i]
            if r.startswith("match community "):
                refs.update(("community", n) for n in w[2:])
            elif r.startswith("match large-community "):
                refs.update(("large", n) for n in w[2:])
            elif r.startswith("match extcommunity "):
                refs.update(("ext", n) for n in w[2:])
            elif r.startswith("set community community-list "):
                refs.update(("community", n) for n in w[3:] if n != "additive")
            elif r.startswith("set large-community large-community-list "):
                refs.update(("large", n) for n in w[3:] if n not in ("additive", "delete"))
            elif r.startswith("match ip address prefix-list "):
                refs.add(("pl4", w[4]))
            elif r.startswith("match ipv6 address prefix-list "):
                refs.add(("pl6", w[4]))
            elif r.startswith("match as-path ") and not r.startswith("match as-path length"):
                refs.add(("aspath", w[2]))
            elif r.startswith("ip community-list "):
                defs.add(("community", name_after(2)))
            elif r.startswith("ip large-community-list "):
                defs.add(("large", name_after(2)))
            elif r.startswith("ip extcommunity-list "):
                defs.add(("ext", name_after(2)))
            elif r.startswith("ip prefix-list "):
                defs.add(("pl4", w[2]))
            elif r.startswith("ipv6 prefix-list "):
                defs.add(("pl6", w[2]))
            elif r.startswith("ip as-path access-list "):
                defs.add(("aspath", w[3]))
        else:  # cumulus
            if r.startswith("match community "):
                refs.add(("community", w[2]))
            elif r.startswith("match large-community-list "):
                refs.add(("large", w[2]))
            elif r.startswith("match extcommunity "):
                refs.add(("ext", w[2]))
            elif r.startswith("set comm-list "):
                refs.add(("community", w[2]))
            elif r.startswith("match ip address prefix-list "):
                refs.add(("pl4", w[4]))
            elif r.startswith("match ipv6 address prefix-list "):
                refs.add(("pl6", w[4]))
            elif r.startswith("match as-path "):
                refs.add(("aspath", w[2]))
            elif r.startswith("bgp community-list "):
                defs.add(("community", w[3]))
            elif r.startswith("bgp large-community-list "):
                defs.add(("large", w[3]))
            elif r.startswith("bgp extcommunity "):
                defs.add(("ext", w[3]))
            elif r.startswith("ip prefix-list "):
                defs.add(("pl4", w[2]))
            elif r.startswith("ipv6 prefix-list "):
                defs.add(("pl6", w[2]))
            elif r.startswith("ip as-path access-list "):
                defs.add(("aspath", w[3]))
    return refs, defs


def _tree_has(tree, path):
    for k in path:
        k = re.sub(r"(?<=\S) {2,}(?=\S)", " ", k)
        if k not in tree:
            return False
        tree = tree[k]
    return True


def _flat(tree):
    for k, v in tree.items():
        yield k
        yield from _flat(v)


# ------------------------------------------------------------------ checks
MODEL = {"huawei": ("Huawei CE6870", "VRP V200R001C00SPC700"), "arista": ("Arista DCS-7368", "EOS 4.29"), "cumulus": ("PC", "Cumulus Linux 5.4")}


def _program(case):
    from annet.annlib.patching import AclError
    from annet.generators import GeneratorError, _run_partial_generator
    from annet.types import GeneratorPartialRunArgs
    vendor = case["vendor"]
    labels = ["vendor:" + vendor, "program"]
    rm = build_routemap(case["policies"])
    gens, rec = make_generators(lambda d: rm.apply(d))
    dev = _Dev(*MODEL[vendor])
    det = {"vendor": vendor}
    derived = any((c[0] in ("match_v4", "match_v6") and any(x is not None for x in c[2])) or (c[0] in BY_TYPE and c[1] == "has_any" and len(c[2]) > 1)
                  for p in case["policies"] for s in p["statements"] for c in s["conds"])
    if derived:
        labels.append("derived-name-ref")
    if vendor == "cumulus":
        try:
            rows = [" ".join(x for x in (r if isinstance(r, (tuple, list)) else (r,))).strip() for r in gens["cumulus"].generate_cumulus_rpl(dev)]
        except EXPECTED as e:
            return labels + ["unsupported-construct"]
        except Exception as e:
            raise Violation("unexpected-exception", f"cumulus: {type(e).__name__}: {e}"[:300], dict(det, exc=type(e).__name__))
        refs, defs = refs_defs(vendor, [re.sub(r"\s+", " ", r) for r in rows])
        miss = sorted(refs - defs)
        if miss:
            raise Violation("dangling-reference", f"cumulus: policy lines refer to {miss}, which no list section defines (defined: {sorted(defs)})",
                            dict(det, missing=miss, kinds=sorted({k for k, _ in miss})))
        return labels + ["generated-ok"]
    outputs = {}
    for name in ("policy", "community", "prefix", "aspath") + (("rd",) if vendor == "huawei" else ()):
        del rec[:]
        try:
            res = _run_partial_generator(gens[name], GeneratorPartialRunArgs(dev, use_acl=True))
        except GeneratorError as e:
            cause = e.__cause__
            if isinstance(cause, AclError):
                v = Violation("acl-error", f"{vendor} {name} generator: its own ACL does not cover the line it generated: {cause}",
                              dict(det, generator=name, row=str(cause), row_head=" ".join(str(cause).split(" / ")[0].split()[:2])))
                labels.append(known_or_raise(PID, v))
                outputs[name] = None
                continue
            if isinstance(cause, EXPECTED):
                labels.append("unsupported-construct")
                outputs[name] = None
                continue
            raise Violation("unexpected-exception", f"{vendor} {name} generator: {type(cause).__name__}: {cause}"[:300],
                            dict(det, generator=name, exc=type(cause).__name__))
        if res is None:
            outputs[name] = None
            continue
        # oracle 2: yielded nesting == parsed nesting
        for gname, bpath, row, depth in list(rec):
            if not _tree_has(res.config, bpath + (row,)):
                raise Violation("nesting-lost", f"{vendor} {name}: row {row!r} yielded in block {bpath!r} is not there in the parsed output",
                                dict(det, generator=name, output=res.output))
        outputs[name] = list(_flat(res.config))
    if outputs.get("policy") is not None:
        refs, _ = refs_defs(vendor, outputs["policy"])
        defs = set()
        skip_kinds = set()
        for name, kinds in (("community", ("community", "large", "ext", "ext-rt", "ext-soo")), ("prefix", ("pl4", "pl6")), ("aspath", ("aspath",)),
                            ("rd", ("rd",))):
            if outputs.get(name) is None:
                skip_kinds.update(kinds)     # that list generator refused its input (or is absent for the vendor): nothing to compare with
            else:
                defs |= refs_defs(vendor, outputs[name])[1]
        miss = sorted(r for r in refs - defs if r[0] not in skip_kinds)
        if miss:
            raise Violation("dangling-reference", f"{vendor}: policy lines refer to {miss}, which the list generators fed the same inputs do not "
                            f"define (defined: {sorted(defs)})", dict(det, missing=miss, kinds=sorted({k for k, _ in miss})))
        labels.append("generated-ok")
        if refs:
            labels.append("has-refs")
    return labels


def _single(case):
    vendor = case["vendor"]
    labels = ["vendor:" + vendor, "single-action"]
    pol = [{"name": "P", "statements": [{"number": 10, "result": "allow", "conds": [], "actions": [case["action"]]}]}]
    rm = build_routemap(pol)
    gens, rec = make_generators(lambda d: rm.apply(d))
    dev = _Dev(*MODEL[vendor])
    lines = []
    err = None
    try:
        if vendor == "cumulus":
            it = gens["cumulus"]._cumulus_policy_config(dev, {c.name: c for c in entities()[0]}, rm.apply(dev),
                                                        __import__("annet.rpl_generators.entities", fromlist=["x"]).PrefixListNameGenerator(entities()[1], rm.apply(dev)))
        else:
            g = gens["policy"]
            g._indents, g._rows = [], []
            it = g.run(dev)
        for x in it:
            lines.append(" ".join(str(y) for y in (x if isinstance(x, (tuple, list)) else (x,))).strip())
    except EXPECTED as e:
        err = e
    except Exception as e:
        raise Violation("unexpected-exception", f"{vendor}: action {case['action']!r}: {type(e).__name__}: {e}"[:300],
                        {"vendor": vendor, "exc": type(e).__name__, "action_field": case["action"][0]})
    own = [l for l in lines if l not in ("!",) and not l.startswith("route-map ")]
    if err is not None:
        labels.append("unsupported-construct")
        if own:
            v = Violation("emit-then-raise", f"{vendor}: action {case['action']!r} is refused with {type(err).__name__}({err}) AFTER the lines "
                          f"{own!r} were emitted for it", {"vendor": vendor, "action_field": case["action"][0], "lines": own, "error": str(err)})
            labels.append(known_or_raise(PID, v))
    else:
        labels.append("accepted")
    return labels


def check(case):
    import logging
    logging.disable(logging.CRITICAL)
    from vf.model import sut  # noqa: F401  (installs the hardware / rulebook connectors)
    if case["kind"] == "single":
        return _single(case)
    return _program(case)


def nontrivial(labels):
    return "derived-name-ref" in labels or "unsupported-construct" in labels
