"""C10 - generators are confined to their ACL, own lines exclusively, and merge by union."""
import types
from collections import OrderedDict as odict
from unittest import mock

from hypothesis import strategies as st

from vf.core.runner import Violation
from vf.model import refacl as RA
from vf.model.rnd import urandoms

PID = "C10"
LEVEL = "exploration"
BUDGET = {"quick": 6000, "thorough": 100000}
HEADS = ["alpha", "beta", "gamma", "delta", "interface", "eps"]
VALS = ["a", "b", "1", "lx"]
NUMS = [0, 0, 7, 0.0]   # block()/block_if()/tuple tokens may be numbers (vlan ids, area 0, ...)
RULE = ("Hypothesis draws 1..3 generator programs (ops: yield row / yield tuple / multi-line yield with relative indentation / block / "
        "block_if with explicit or default condition / multiblock, nested to depth 3), each with an ACL text derived from the rows it yields "
        "(some rows left uncovered, patterns generalised, nested or '~ %global' bodies, %cant_delete flags) and a vendor (huawei, cisco). "
        "An interpreter class (dynamically created PartialGenerator subclasses) runs them through the production step "
        "annet.gen._old_new_per_device. Oracle (reference model + vf.model.refacl): GeneratorError with cause AclError naming the first "
        "uncovered row iff some yielded path is not covered by that generator's own ACL; otherwise AclNotExclusiveError iff >=2 generators "
        "have a deletable rule matching one row of the merged tree; otherwise result.new == union of yielded paths in first-seen order. "
        "Non-trivial: >=2 generators, nested blocks, and an error outcome or a merged block with rows from two generators.")
ASSUMPTIONS = [
    "generated multi-line yields are consistently indented (bad indentation is C05's subject)",
    "ACLs per vf.model.refacl: %global rules are '~' catch-alls; no %prio; rows never start with the negation word",
]
FLOORS = {"acl-error": 0.1, "not-exclusive": 0.05, "union-ok": 0.25}


def gen_prog(rnd, depth=0):
    ops = []
    for _ in range(rnd.randint(1, 4)):
        x = rnd.randint(0, 99)
        row = [rnd.choice(HEADS)] + [rnd.choice(VALS) for _ in range(rnd.randint(0, 2))]
        if x >= 30 and not (42 <= x < 52) and rnd.chance(20):
            row.append(rnd.choice(NUMS))   # only where tokens are passed as values: tuple yields, block*, multiblock
        if x < 30:
            ops.append(["y", " ".join(row)])
        elif x < 38:
            ops.append(["yt", row])
        elif x < 42:
            # a tuple that nests a lazily produced part (a generator expression, map object, iterator, list): ("vlan batch", (str(v) for v in ids))
            ops.append(["ytn", row, rnd.randint(1, max(1, len(row) - 1)), rnd.choice(["genexp", "map", "iter", "list", "range"])])
        elif x < 52:
            lines = [[0, " ".join(row)]]
            if rnd.chance(60):
                lines.append([0, " ".join([rnd.choice(HEADS), rnd.choice(VALS)])])
            if rnd.chance(40):
                lines.append([1, " ".join([rnd.choice(HEADS), rnd.choice(VALS)])])
            ops.append(["ym", lines])
        elif depth < 3 and x < 80:
            ops.append(["b", row, gen_prog(rnd, depth + 1)])
        elif depth < 3 and x < 90:
            cond = rnd.choice([None, True, False])
            toks = list(row)
            if cond is None and rnd.chance(30):
                toks[rnd.randint(0, len(toks) - 1)] = rnd.choice([None, ""])
            ops.append(["bif", toks, cond, gen_prog(rnd, depth + 1)])
        elif depth < 2:
            ops.append(["mb", [row, [rnd.choice(HEADS), rnd.choice(VALS)]], gen_prog(rnd, depth + 2)])
        else:
            ops.append(["y", " ".join(map(str, row))])
    return ops


def model_paths(ops, path=()):
    """paths (block path + row) in the order they are produced"""
    out = []
    for op in ops:
        k = op[0]
        if k == "y":
            out.append(path + (op[1],))
        elif k in ("yt", "ytn"):
            out.append(path + (" ".join(map(str, op[1])),))
        elif k == "ym":
            stack = []
            for lvl, row in op[1]:
                stack = stack[:lvl] + [row]
                out.append(path + tuple(stack))
        elif k == "b":
            row = " ".join(map(str, op[1]))
            out.append(path + (row,))
            out += model_paths(op[2], path + (row,))
        elif k == "bif":
            toks, cond = op[1], op[2]
            if cond is None:
                cond = None not in toks and "" not in toks
            if cond:
                row = " ".join(map(str, toks))
                out.append(path + (row,))
                out += model_paths(op[3], path + (row,))
            else:
                out += model_paths(op[3], path)
        elif k == "mb":
            p = path
            for blk in op[1]:
                row = " ".join(map(str, blk))
                p = p + (row,)
                out.append(p)
            out += model_paths(op[2], p)
    return out


def tree_of(paths):
    t = odict()
    for p in paths:
        cur = t
        for k in p:
            cur = cur.setdefault(k, odict())
    return t


def acl_for(rnd, tree, protect=()):
    rules = {}
    for row, ch in tree.items():
        if rnd.chance(4):
            continue
        w = row.split(" ")
        x = rnd.randint(0, 9)
        if x < 5 or len(w) == 1:
            toks = [w[0]]
        elif x < 8:
            toks = [w[0], "*"]
        else:
            toks = [w[0], "~"]
        key = " ".join(toks)
        if ch:
            sub = [RA.acl_rule(["~"], glob=True)] if rnd.chance(30) else acl_for(rnd, ch)
        else:
            sub = []
        if ch and rnd.chance(25) and len(w) > 1:
            # plus a partially overlapping rule for this very row (concrete key) with its own children
            k2 = " ".join(w[:2])
            if k2 not in rules and k2 != key:
                rules[k2] = RA.acl_rule(w[:2], acl_for(rnd, ch), cd=rnd.choice([None, 0, 1]))
            k3 = w[0] + " */[a-z0-9]+/"
            if rnd.chance(50) and k3 not in rules:
                rules[k3] = RA.acl_rule([w[0], "*/[a-z0-9]+/"], acl_for(rnd, ch), cd=rnd.choice([None, 0, 1]))
        if key in rules:
            have = {" ".join(r["toks"]) for r in rules[key]["children"]}
            rules[key]["children"] += [r for r in sub if " ".join(r["toks"]) not in have]
        else:
            rules[key] = RA.acl_rule(toks, sub, cd=1 if (row in protect and rnd.chance(85)) else rnd.choice([None, None, 0, 1]))
    out = list(rules.values())
    # the same rule row written twice in one ACL (hand-maintained ACLs: once protected, once not); the lines differ textually
    for r in list(out):
        if not r.get("glob") and rnd.chance(12):
            other = rnd.choice([c for c in (None, 0, 1) if c != r["cd"]])
            out.insert(rnd.randint(0, len(out)), RA.acl_rule(r["toks"], list(r["children"]) if rnd.chance(50) else [], cd=other))
    return out


def _gen_from(rnd):
    vendor = rnd.choice(["huawei", "cisco"])
    gens = []
    for i in range(rnd.randint(1, 3)):
        prog = gen_prog(rnd)
        protect = set()
        blocks0 = [op for op in gens[0]["prog"] if op[0] == "b"] if gens else []
        if blocks0 and rnd.chance(50):
            # this generator writes into a block that the first generator also fills (interface X: one generator per feature);
            # it usually marks the shared header as not its own to delete
            op = rnd.choice(blocks0)
            prog.insert(rnd.randint(0, len(prog)), ["b", op[1], gen_prog(rnd, 1)])
            protect.add(" ".join(map(str, op[1])))
        acl = acl_for(rnd, tree_of(model_paths(prog)), protect)
        if rnd.chance(12):
            # 'no shutdown' style: the generator owns a negated line through an explicit rule, next to an add-only rule for the plain
            # line (listed first); the head is private to this generator, so nothing else matches these two lines
            rev = {"huawei": "undo", "cisco": "no"}[vendor]
            head = "shut%d" % i
            prog.insert(rnd.randint(0, len(prog)), ["y", rev + " " + head])
            acl = [RA.acl_rule([head], cd=1), RA.acl_rule([rev, head])] + acl
        if rnd.chance(12):
            # two overlapping sibling rules with DIFFERENT children: the concrete-key rule allows a line that the wildcard rule does not;
            # the block matching both comes first, then a block matching the wildcard rule only, with that very line (uncovered there)
            h = "ovl%d" % i
            # rule 1 keys: letters then optional digits; rule 2 keys: optional letters then digits; 'a1' is matched by both, 'a' by rule 1
            # only, '7' by rule 2 only; 'extra1' is allowed under rule 1 only, 'extra2' under rule 2 only
            only1 = ["b", [h, "a"], [["y", "extra2 x"]]]      # uncovered: extra2 is rule 2's child
            only2 = ["b", [h, "7"], [["y", "extra1 x"]]]      # uncovered: extra1 is rule 1's child
            later = [only1, only2] if rnd.chance(50) else [only2, only1]
            blocks = [["b", [h, "a1"], [["y", "extra1 x"], ["y", "extra2 x"]]]] + later
            pos = rnd.randint(0, len(prog))
            prog[pos:pos] = blocks
            acl = acl + [RA.acl_rule([h, "*/[a-z]+[0-9]*/"], [RA.acl_rule(["extra1", "~"])]),
                         RA.acl_rule([h, "*/[a-z]*[0-9]+/"], [RA.acl_rule(["extra2", "~"])])]
        if rnd.chance(35):
            # a rule for lines this generator emits only under other circumstances (nothing of the kind is yielded this time)
            acl = acl + [RA.acl_rule(["zeta", rnd.choice(["~", "*"])], cd=rnd.choice([None, None, 1]))]
        g = {"prog": prog, "acl": acl, "acl_indent": rnd.choice([0, 0, 4, 8, 12])}
        if rnd.chance(12):
            # the generator object served another device before, which it refused (NotSupportedDevice) after yielding k lines,
            # possibly from inside a block
            g["aborted_first_run"] = {"after": rnd.randint(1, 3), "in_block": rnd.chance(50)}
        elif rnd.chance(15):
            # ... or served it: a device named 'other' (same vendor, or the other vendor) for which this generator has nothing to say and
            # a wide, device-specific ACL
            g["served_before"] = rnd.choice(["same-vendor", "other-vendor"])
        g["vendor_hooks"] = rnd.chance(50)    # run_<vendor>/acl_<vendor> hooks (how the shipped generators are written) or run/acl
        gens.append(g)
    if len(gens) < 3 and rnd.chance(15):
        # a generator that has nothing to say for this device but whose ACL speaks about lines another generator yields (its ACL is
        # part of the run all the same: two owners of one yielded line are a conflict whether or not both yield it)
        src = rnd.choice(gens)
        rules = [r for r in src["acl"] if not r.get("glob")]
        if rules:
            import copy as _copy
            gens.append({"prog": [], "acl": _copy.deepcopy(rnd.sample(rules, rnd.randint(1, min(2, len(rules))))), "acl_indent": 0,
                         "vendor_hooks": rnd.chance(50), "silent": True})
    case = {"vendor": vendor, "gens": gens}
    if rnd.chance(35):
        # the device already has a configuration: lines that the generators' ACL rules speak about (some in the overlap of two
        # generators' rules) and foreign ones; old lines are only filtered by the ACL - ownership conflicts are about yielded lines
        rows = []
        allr = [r for g in gens for r in g["acl"] if not r.get("glob") and r["toks"][0] not in ("undo", "no")]
        for _ in range(rnd.randint(1, 6)):
            if allr and rnd.chance(75):
                toks = rnd.choice(allr)["toks"]
                w = []
                for tk in toks:
                    if tk in ("*", "~") or tk.startswith("*/"):
                        w.append(rnd.choice(["a", "b", "lx"]) if not tk.startswith("*/[0") else "7")
                    else:
                        w.append(tk)
                rows.append(" ".join(w) + (" " + rnd.choice(VALS) if rnd.chance(40) else ""))
            else:
                rows.append("zeta " + rnd.choice(VALS))
        case["old_rows"] = list(dict.fromkeys(rows))
    return case


@st.composite
def _cases(draw):
    return _gen_from(draw(urandoms()))


def fuzz_decode(fdp):
    """coverage-guided tier: the same generator driven by fuzzer-chosen bytes (vf/core/fuzz_target.py)"""
    from vf.model.rnd import FdpRandom
    return _gen_from(FdpRandom(fdp))

def strategy(tier):
    return _cases()


class _Dev:
    def __init__(self, hw):
        self.hw, self.hostname, self.fqdn, self.id, self.tags, self.breed = hw, "d1", "d1.x", 1, [], "x"
        self.storage = types.SimpleNamespace(flush_perf=lambda: {})

    def is_pc(self):
        return False


def _make_gen(i, spec, vendor):
    from annet.generators import PartialGenerator

    def interp(self, ops):
        for op in ops:
            k = op[0]
            if k == "y":
                yield op[1]
            elif k == "yt":
                yield tuple(op[1])
            elif k == "ytn":
                head, tail = list(op[1][:op[2]]), list(op[1][op[2]:])
                lazy = {"genexp": (w for w in tail), "map": map(str, tail), "iter": iter(tail), "list": list(tail),
                        "range": tail}[op[3]]
                yield tuple(head) + (lazy,)
            elif k == "ym":
                yield "\n".join("  " * lvl + row for lvl, row in op[1]) + "\n"
            elif k == "b":
                with self.block(*op[1]):
                    yield from interp(self, op[2])
            elif k == "bif":
                if op[2] is None:
                    with self.block_if(*op[1]):
                        yield from interp(self, op[3])
                else:
                    with self.block_if(*op[1], condition=op[2]):
                        yield from interp(self, op[3])
            elif k == "mb":
                with self.multiblock(*op[1]):
                    yield from interp(self, op[2])

    def run(self, device):
        if getattr(device, "hostname", "") == "other":
            return
        ab = spec.get("aborted_first_run")
        if ab and getattr(device, "hostname", "") == "refused":
            from annet.generators import NotSupportedDevice
            if ab["in_block"]:
                with self.block("interface", "stale0"):
                    for k in range(ab["after"]):
                        yield "stale line %d" % k
                    raise NotSupportedDevice("not for this device")
            for k in range(ab["after"]):
                yield "stale line %d" % k
            raise NotSupportedDevice("not for this device")
        yield from interp(self, spec["prog"])

    def acl(self, device):
        if getattr(device, "hostname", "") == "other":
            return "~ %global\n"      # (the ACL of a generator may depend on the device)
        # ACL literals come with whatever base indentation the generator's source has
        pad = " " * spec.get("acl_indent", 0)
        return "\n" + "".join(pad + l + "\n" for l in RA.acl_lines(spec["acl"]))
    if spec.get("vendor_hooks"):
        other = {"huawei": "cisco", "cisco": "huawei"}[vendor]
        return type("VG%d" % i, (PartialGenerator,), {"run_" + vendor: run, "acl_" + vendor: acl, "run_" + other: run, "acl_" + other: acl})
    return type("VG%d" % i, (PartialGenerator,), {"run": run, "acl": acl})


def check(case):
    from annet import gen as G
    from annet.annlib.netdev.views.hardware import HardwareView
    from annet.annlib.patching import AclError, AclNotExclusiveError
    from annet.generators import GeneratorError
    from vf.model import sut
    import logging
    logging.disable(logging.CRITICAL)
    vendor = case["vendor"]
    hw = sut.hw_for(vendor)
    dev = _Dev(hw)
    sto = types.SimpleNamespace(flush_perf=lambda: {})
    gens = [_make_gen(i, s, vendor)(sto) for i, s in enumerate(case["gens"])]
    labels = ["vendor:" + vendor, "generators-%d" % len(gens)]

    class Args:
        no_acl = False; no_acl_exclusive = False; acl_safe = False; profile = False; fail_on_empty_config = False
        generators_context = None; filter_acl = None; filter_ifaces = None; filter_peers = None; filter_policies = None
        required_packages_check = False
    dg = G.DeviceGenerators(partial={dev: list(gens)}, ref={dev: []}, entire={dev: []}, json_fragment={dev: []})
    old_rows = case.get("old_rows") or []
    if old_rows:
        labels.append("device-has-config")
    ctx = G.OldNewDeviceContext(config="running" if old_rows else "empty", args=Args(), downloaded_files={}, failed_files={},
                                running={dev: "\n".join(old_rows) + "\n"} if old_rows else {}, failed_running={},
                                no_new=False, stdin={"filter_acl": None, "config": None}, add_annotations=False, add_implicit=False,
                                do_files_download=False, gens=dg, fetched_packages={}, failed_packages={}, device_count=1,
                                do_print_perf=False)
    # ---- expectation
    exp = None
    trees = []
    for i, s in enumerate(case["gens"]):
        t = tree_of(model_paths(s["prog"]))
        trees.append(t)
        bad = RA.first_uncovered(t, RA.ACtx.top([("VG%d" % i, s["acl"])]))
        if bad is not None and exp is None:
            exp = ("GeneratorError", " / ".join(bad))
    merged = odict()

    def merge(dst, src):
        for k, v in src.items():
            merge(dst.setdefault(k, odict()), v)
    for t in trees:
        merge(merged, t)
    if any(len(p) >= 2 for s in case["gens"] for p in model_paths(s["prog"])):
        labels.append("nested")
    named = [("VG%d" % i, s["acl"]) for i, s in enumerate(case["gens"])]
    if exp is None:
        def walk(t, actx, path=()):
            for row, ch in t.items():
                dg_ = actx.deletable_generators(row)
                if len(dg_) > 1:
                    return path + (row,), dg_
                r = walk(ch, actx.child(row), path + (row,))
                if r:
                    return r
            return None
        ne = walk(merged, RA.ACtx.top(named))
        if ne:
            exp = ("AclNotExclusiveError", ne)
    det = {"acls": [RA.acl_text(s["acl"]) for s in case["gens"]], "merged_model": _plain(merged), "expected": exp}
    # ---- run
    got = None
    res = None
    with mock.patch("annet.generators.run_partial_initial") as rpi:
        rpi.return_value = mock.Mock(config_tree=lambda: {}, perf_mesures=lambda: {})
        if any(s.get("aborted_first_run") for s in case["gens"]):
            # the same generator objects first serve a device they refuse; nothing of that run may survive into the next one
            labels.append("generator-objects-reused")
            dev0 = _Dev(hw)
            dev0.hostname = "refused"
            dg0 = G.DeviceGenerators(partial={dev0: [g for g, s in zip(gens, case["gens"]) if s.get("aborted_first_run")]}, ref={dev0: []},
                                     entire={dev0: []}, json_fragment={dev0: []})
            ctx0 = G.OldNewDeviceContext(**dict(ctx.__dict__, gens=dg0, config="empty", running={}))
            try:
                G._old_new_per_device(ctx0, dev0, mock.Mock())
            except Exception as e:
                raise Violation("unexpected-error", f"a generator refusing its device made the run fail: {type(e).__name__}: {e}", det)
        served = [(g, s) for g, s in zip(gens, case["gens"]) if s.get("served_before")]
        if served:
            labels.append("generator-objects-served-another-device")
            for vk in ("same-vendor", "other-vendor"):
                gs = [g for g, s in served if s["served_before"] == vk]
                if not gs:
                    continue
                ohw = hw if vk == "same-vendor" else sut.hw_for({"huawei": "cisco", "cisco": "huawei"}[vendor])
                dev1 = _Dev(ohw)
                dev1.hostname = "other"
                dg1 = G.DeviceGenerators(partial={dev1: list(gs)}, ref={dev1: []}, entire={dev1: []}, json_fragment={dev1: []})
                try:
                    r1 = G._old_new_per_device(G.OldNewDeviceContext(**dict(ctx.__dict__, gens=dg1, config="empty", running={})), dev1, mock.Mock())
                except Exception as e:
                    raise Violation("unexpected-error", f"serving a device the generators have nothing to say about failed: {type(e).__name__}: {e}", det)
                if r1.err or RL_plain(r1.new):
                    raise Violation("unexpected-error", f"a device the generators yield nothing for got new={RL_plain(r1.new)!r} err={r1.err!r}", det)
        try:
            res = G._old_new_per_device(ctx, dev, mock.Mock())
        except GeneratorError as e:
            cause = e.__cause__
            got = ("GeneratorError", str(cause) if isinstance(cause, AclError) else "cause=%r" % (cause,))
        except AclNotExclusiveError as e:
            got = ("AclNotExclusiveError", str(e))
        except Exception as e:   # anything else from the code under test is reported, not a harness error
            got = ("unexpected:" + type(e).__name__, str(e)[:200])
    if res is not None and res.err:
        got = ("err", repr(res.err))
    det["got"] = got
    if exp is None:
        if got is not None:
            raise Violation("unexpected-error", f"all rows are covered and owned exclusively, but the run failed with {got!r}", det)
        if _seq(res.new) != _seq(merged):
            raise Violation("union-differs", f"result.new {_plain(res.new)!r} != union of yielded paths {_plain(merged)!r}"[:700], det)
        if old_rows:
            exp_old = RA.ref_filter(odict((r, odict()) for r in old_rows), RA.ACtx.top(named))
            if _plain(res.old) != _plain(exp_old):
                raise Violation("old-not-filtered", f"result.old {_plain(res.old)!r} != the device's lines the merged ACL covers {_plain(exp_old)!r}"[:700], det)
        labels.append("union-ok")
        if len(gens) >= 2 and any(sum(1 for t in trees if _has_path(t, p) and _get(t, p)) >= 2 for p in _all_paths(merged)):
            labels.append("merged-block")
    elif exp[0] == "GeneratorError":
        labels.append("acl-error")
        if got is None or got[0] != "GeneratorError":
            raise Violation("uncovered-row-not-refused", f"a generator yields {exp[1]!r}, which its own ACL does not cover, but the run gave {got!r} "
                            f"and new={_plain(res.new) if res is not None else None!r}"[:700], det)
        if got[1] != exp[1]:
            raise Violation("acl-error-names-other-row", f"GeneratorError names {got[1]!r}, the first uncovered row is {exp[1]!r}", det)
    else:
        labels.append("not-exclusive")
        if got is None or got[0] != "AclNotExclusiveError":
            raise Violation("conflict-not-reported", f"generators {exp[1][1]} both may delete {exp[1][0]!r} but the run gave {got!r}", det)
    return labels


def RL_plain(t):
    return {k: RL_plain(v) for k, v in (t or {}).items()}


def _plain(t):
    return {k: _plain(v) for k, v in t.items()}


def _seq(t):
    return [(k, _seq(v)) for k, v in t.items()]


def _all_paths(t, path=()):
    for k, v in t.items():
        yield path + (k,)
        yield from _all_paths(v, path + (k,))


def _get(t, p):
    for k in p:
        t = t[k]
    return t


def _has_path(t, p):
    for k in p:
        if k not in t:
            return False
        t = t[k]
    return True


def nontrivial(labels):
    return "generators-1" not in labels and "nested" in labels and ("acl-error" in labels or "not-exclusive" in labels or "merged-block" in labels)
