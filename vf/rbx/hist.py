"""Verification-side rulebook logic functions (resolved through a RulebookProvider whose root modules include vf.rbx).
They mutate their `rule` argument in a non-idempotent way - which make_patch explicitly allows by handing every call its own copy."""
from annet.annlib.rulebook import common


def mutating(rule, key, diff, **_):
    rule["reverse"] = "X" + rule["reverse"]
    rule["comment"].append("touched")
    yield from common.default(rule, key, diff)
