"""CLI:  /venv/bin/python -m vf.run Cxx --tier quick|thorough [--replay FILE]

exit 0 = property held on everything explored; exit 1 + "VIOLATION property=<id> replay=<path>";
exit 2 = harness error (never a VIOLATION)."""
import argparse
import os
import sys


def main():
    ap = argparse.ArgumentParser()
    ap.add_argument("pid")
    ap.add_argument("--tier", default=os.environ.get("VERIF_TIER", "quick"), choices=["quick", "thorough"])
    ap.add_argument("--replay", default=None)
    a = ap.parse_args()
    if os.environ.get("PYTHONHASHSEED") != "0" or os.environ.get("PYTHONDONTWRITEBYTECODE") != "1":
        # fresh interpreter with a fixed hash seed: set iteration order is part of no result
        env = dict(os.environ, PYTHONHASHSEED="0", PYTHONDONTWRITEBYTECODE="1")
        os.execve(sys.executable, [sys.executable, "-m", "vf.run"] + sys.argv[1:], env)
    seed = int(os.environ.get("VERIF_SEED", "1") or "1")
    from vf.core.runner import run_property
    try:
        rc = run_property("vf.props." + a.pid.lower(), a.tier, seed, a.replay)
    except Exception:
        import traceback
        traceback.print_exc()
        print(f"[{a.pid}] HARNESS ERROR (not a violation)", file=sys.stderr)
        rc = 2
    sys.exit(rc)


if __name__ == "__main__":
    main()
