"""Coverage-guided fuzz target (atheris / libFuzzer) around a property module's own oracle.

usage: python -m vf.core.fuzz_target <module> <outdir> <runs> <seed>

Bytes become cases in one of two ways: the module's own fuzz_decode(fdp) -> case | None (byte-level text formats: C05), or - for
every other module - Hypothesis' documented external-fuzzer hook `test.hypothesis.fuzz_one_input`, which replays the bytes as the
choice sequence of the module's ordinary strategy(tier); either way the case has the SAME shape the Hypothesis part produces and goes
through the usual check(case) / nontrivial(labels).  The semantic oracle runs inside the target; the annet package is instrumented so that libFuzzer's
coverage feedback steers the byte mutations.  The target counts what it executes and stops itself after <runs> decoded cases
(libFuzzer's own exit path does not run Python atexit handlers), writing <outdir>/stats.json; on a violation it writes
<outdir>/violation.json first and lets the exception reach libFuzzer (which saves the crashing input next to it).
"""
import hashlib
import importlib
import json
import os
import sys
import time

VERIF = os.path.dirname(os.path.dirname(os.path.dirname(os.path.abspath(__file__))))
sys.path.insert(0, VERIF)
sys.path.insert(0, os.path.join(VERIF, ".deps"))


def main():
    modname, outdir, runs, seed = sys.argv[1], sys.argv[2], int(sys.argv[3]), int(sys.argv[4])
    import atheris
    with atheris.instrument_imports(include=["annet"], enable_loader_override=False):
        import annet  # noqa: F401
        import annet.annlib.tabparser  # noqa: F401
        import annet.annlib.patching  # noqa: F401
        import annet.annlib.jsontools  # noqa: F401
        import annet.annlib.rbparser.syntax  # noqa: F401
        import annet.annlib.rbparser.acl  # noqa: F401
        import annet.annlib.rbparser.ordering  # noqa: F401
        import annet.rulebook.patching  # noqa: F401
        import annet.rulebook.deploying  # noqa: F401
        import annet.implicit  # noqa: F401
    from vf.core.runner import Violation, load_findings, match_finding, sut_exception_as_violation
    mod = importlib.import_module(modname)
    findings = load_findings(mod.PID)
    st = {"evaluations": 0, "undecodable": 0, "labels": {}, "nontrivial": [], "known": {}, "samples": [], "t0": time.time(), "violation": False}
    seen = set()
    corpus = os.path.join(outdir, "corpus")
    os.makedirs(corpus, exist_ok=True)

    def dump():
        st["wall"] = time.time() - st["t0"]
        with open(os.path.join(outdir, "stats.json.tmp"), "w") as f:
            json.dump(st, f)
        os.replace(os.path.join(outdir, "stats.json.tmp"), os.path.join(outdir, "stats.json"))

    def one(data):
        fdp = atheris.FuzzedDataProvider(data)
        case = mod.fuzz_decode(fdp)
        if case is None:
            st["undecodable"] += 1
            return
        run(case)

    def run(case):
        st["evaluations"] += 1
        try:
            try:
                labels = mod.check(case) or []
            except Violation:
                raise
            except Exception as exc:
                v2 = sut_exception_as_violation(exc, case)
                if v2 is None:
                    raise
                raise v2 from exc
        except Violation as v:
            e = match_finding(findings, v)
            if e is not None:
                st["known"][e["id"]] = st["known"].get(e["id"], 0) + 1
                labels = ["known-finding:" + e["id"]]
            else:
                st["violation"] = True
                with open(os.path.join(outdir, "violation.json"), "w") as f:
                    json.dump({"case": case, "kind": v.kind, "what": v.what, "detail": v.detail}, f, default=str)
                dump()
                raise
        for lab in set(labels):
            if isinstance(lab, str) and lab.startswith("n:"):
                _, name, num = lab.split(":", 2)
                st["labels"]["n:" + name] = st["labels"].get("n:" + name, 0) + int(num)
            else:
                st["labels"][lab] = st["labels"].get(lab, 0) + 1
        if mod.nontrivial(labels):
            h = hashlib.sha1(json.dumps(case, sort_keys=True, default=str).encode()).hexdigest()
            if h not in seen and len(seen) < 200000:
                seen.add(h)
                st["nontrivial"].append(h)
                if len(st["samples"]) < 2:
                    st["samples"].append({"case": case, "labels": sorted(set(labels)), "engine": "atheris"})
        if st["evaluations"] >= runs:
            dump()
            os._exit(0)
        if st["evaluations"] % 5000 == 0:
            dump()

    if not hasattr(mod, "fuzz_decode"):
        from hypothesis import HealthCheck, given, settings
        tier = os.environ.get("VF_FUZZ_TIER", "thorough")

        @settings(database=None, deadline=None, suppress_health_check=list(HealthCheck), report_multiple_bugs=False)
        @given(mod.strategy(tier))
        def prop(case):
            run(case)
        hyp = prop.hypothesis.fuzz_one_input

        def one(data):  # noqa: F811
            before = st["evaluations"]
            hyp(data)
            if st["evaluations"] == before:
                st["undecodable"] += 1   # bytes that do not form a complete choice sequence
    atheris.Setup([sys.argv[0], corpus, "-seed=%d" % seed, "-runs=%d" % (runs * 50), "-max_len=%d" % getattr(mod, "FUZZ_MAX_LEN", 1024), "-len_control=0",
                   "-print_final_stats=0", "-verbosity=0", "-artifact_prefix=" + outdir + "/"], one)
    atheris.Fuzz()
    dump()
    os._exit(0)


if __name__ == "__main__":
    main()
