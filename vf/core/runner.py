"""Generic runner: shards a property's generated search over processes, merges counters,
handles known findings, writes evidence and replay files.

A property module (vf.props.cXX) provides:
    PID                     "C05"
    RULE                    str: how cases are generated and what makes one non-trivial
    ASSUMPTIONS             list[str]
    BUDGET                  {"quick": int, "thorough": int}   number of generated cases
    strategy(tier)          Hypothesis strategy producing a JSON-serialisable case   (optional)
    enumerate_cases(tier, shard, nshards)   iterator of cases for exhaustive parts  (optional)
    ENUM_EXHAUSTIVE         bool: the enumeration covers its stated finite space completely
    check(case) -> list[str] labels; raises Violation(kind, what, detail) when the property fails
    nontrivial(labels) -> bool
    FLOORS                  {label: min fraction among generated cases}  (optional, vacuity guard)
    extra_phase(tier, seed, ctx)   optional hook run in the parent (e.g. subprocess differentials)
"""
from __future__ import annotations

import hashlib
import importlib
import signal
import json
import multiprocessing as mp
import os
import sys
import time
import traceback
from collections import Counter

VERIF = os.path.dirname(os.path.dirname(os.path.dirname(os.path.abspath(__file__))))
MAX_SAMPLES = 6


class Violation(Exception):
    def __init__(self, kind: str, what: str, detail=None):
        super().__init__(f"{kind}: {what}")
        self.kind = kind
        self.what = what
        self.detail = detail


class HarnessError(Exception):
    pass


def canon(case) -> str:
    return json.dumps(case, sort_keys=True, default=str, ensure_ascii=True)


def case_hash(case) -> str:
    return hashlib.sha1(canon(case).encode()).hexdigest()


# ------------------------------------------------------------------ known findings
def load_findings(pid):
    path = os.path.join(VERIF, "known_findings.json")
    if not os.path.exists(path):
        return []
    with open(path) as f:
        data = json.load(f)
    return [e for e in data.get("known", []) if e.get("property") == pid]


def match_finding(findings, v: Violation):
    """A finding entry matches a violation by its diagnosed kind AND the finding-specific
    predicate evaluated by the property module over the oracle's diagnosis (never 'any violation')."""
    for e in findings:
        if e.get("kind") != v.kind:
            continue
        sig = e.get("signature")
        if sig is None:
            return e
        d = v.detail if isinstance(v.detail, dict) else {}
        if all(d.get(k) == val for k, val in sig.items()):
            return e
    return None


def known_or_raise(pid, v: Violation):
    """for checks that continue after a listed finding (the class is excluded from the remaining assertions of the case and counted):
    returns the label to record; raises the violation when no committed entry lists it"""
    e = match_finding(load_findings(pid), v)
    if e is None:
        raise v
    return "known-finding:" + e["id"]


def sut_exception_as_violation(exc, case=None):
    """An exception that escapes check(): whose code raised it?  The deepest traceback frame that belongs either to the annet package
    or to /verif decides: annet -> the code under test failed on an input of the property's domain (the checks catch every exception
    the properties allow - GeneratorError, ParserError, ... - themselves), reported as a violation 'unexpected-exception';
    /verif -> harness error."""
    import annet
    root = os.path.dirname(os.path.abspath(annet.__file__)) + os.sep
    gens = os.path.join(os.path.dirname(os.path.dirname(root)), "annet_generators") + os.sep
    mine = os.path.join(VERIF, "vf") + os.sep
    owner = None
    tb = exc.__traceback__
    while tb is not None:
        fn = os.path.abspath(tb.tb_frame.f_code.co_filename)
        if fn.startswith(root) or fn.startswith(gens):
            owner = ("annet", fn[len(os.path.dirname(os.path.dirname(root))) + 1:], tb.tb_lineno)
        elif fn.startswith(mine):
            owner = ("vf", fn, tb.tb_lineno)
        tb = tb.tb_next
    if owner is None or owner[0] != "annet":
        return None
    return Violation("unexpected-exception", f"{type(exc).__name__}: {str(exc)[:300]} raised in {owner[1]}:{owner[2]} on an input of the "
                     f"property's domain", {"exception": type(exc).__name__, "where": f"{owner[1]}:{owner[2]}", "case": case})


# ------------------------------------------------------------------ coverage-guided phase
def run_fuzz(mod, tier, seed, runs):
    """K parallel libFuzzer campaigns (atheris) over mod.fuzz_decode + mod.check, each from an empty corpus in a fresh directory with
    its own -seed; -> merged counters.  A campaign is reproducible only approximately (libFuzzer); the saved failing CASE is the
    reproducible unit (it is an ordinary case: `--replay` runs it through check() without any fuzzer)."""
    import shutil
    import subprocess
    nproc = int(os.environ.get("VF_FUZZ_PROCS", "8"))
    base = os.path.join(VERIF, ".scratch", "fuzz", mod.PID)
    shutil.rmtree(base, ignore_errors=True)
    probe = subprocess.run([sys.executable, "-c", "import sys; sys.path.insert(0, %r); import atheris" % os.path.join(VERIF, ".deps")],
                           capture_output=True)
    if probe.returncode != 0:
        return {"coverage": {"available": False, "note": "atheris is not installed under /verif/.deps (MANIFEST setup_cmd installs it)"},
                "nontrivial": [], "labels": {}, "known": {}, "samples": [], "violation": None}
    procs = []
    for k in range(nproc):
        out = os.path.join(base, str(k))
        os.makedirs(out)
        env = dict(os.environ, PYTHONHASHSEED="0")
        procs.append((out, subprocess.Popen([sys.executable, "-m", "vf.core.fuzz_target", mod.__name__, out, str(runs), str(seed * 100 + k + 1)],
                                            cwd=VERIF, env=env, stdout=subprocess.DEVNULL, stderr=subprocess.PIPE)))
    cov = {"available": True, "engine": "atheris 3.1 / libFuzzer, annet instrumented, empty initial corpus", "processes": nproc,
           "runs_per_process": runs, "evaluations": 0, "undecodable_inputs": 0, "corpus_files": 0, "exec_per_s": 0}
    merged = {"coverage": cov, "nontrivial": [], "labels": Counter(), "known": Counter(), "samples": [], "violation": None}
    wall = 0.0
    for out, p in procs:
        _, err = p.communicate()
        sp = os.path.join(out, "stats.json")
        if not os.path.exists(sp):
            raise HarnessError("fuzz process wrote no stats (rc=%s): %s" % (p.returncode, err.decode(errors="replace")[-1500:]))
        with open(sp) as f:
            stt = json.load(f)
        cov["evaluations"] += stt["evaluations"]
        cov["undecodable_inputs"] += stt["undecodable"]
        cov["corpus_files"] += len(os.listdir(os.path.join(out, "corpus")))
        wall = max(wall, stt.get("wall", 0))
        merged["nontrivial"] += stt["nontrivial"]
        merged["labels"].update(stt["labels"])
        merged["known"].update(stt["known"])
        if len(merged["samples"]) < 2:
            merged["samples"] += stt["samples"][:1]
        vp = os.path.join(out, "violation.json")
        if os.path.exists(vp) and merged["violation"] is None:
            with open(vp) as f:
                merged["violation"] = json.load(f)
        elif p.returncode != 0 and not os.path.exists(vp):
            raise HarnessError("fuzz process failed without a violation (rc=%s): %s" % (p.returncode, err.decode(errors="replace")[-1500:]))
    cov["exec_per_s"] = int(cov["evaluations"] / wall) if wall else 0
    cov["distinct_nontrivial"] = len(set(merged["nontrivial"]))
    shutil.rmtree(base, ignore_errors=True)
    return merged


# ------------------------------------------------------------------ shard worker
class CaseTimeout(BaseException):
    """(BaseException: the checks' own 'except Exception' clauses around the code under test must not swallow it)"""


class ShardState:
    def __init__(self, mod, findings):
        self.mod = mod
        self.findings = findings
        self.evaluations = 0
        self.labels = Counter()
        self.nontrivial = set()
        self.enum_nontrivial = 0  # enumerated cases are distinct by construction: counted, not hashed
        self.samples = []
        self.known = Counter()
        self.known_examples = {}
        self.last_violation = None  # (case, Violation)
        self.harness_error = None

    def _check_limited(self, case):
        """mod.check(case) under a generous wall-clock limit: a case that does not finish (possible only with a changed tree that makes
        some structure grow without bound) is counted as inconclusive - never as a violation, never as a pass."""
        limit = float(os.environ.get("VF_CASE_LIMIT", getattr(self.mod, "CASE_TIME_LIMIT", 45)))
        if getattr(self.mod, "OWN_TIME_LIMIT", False) or limit <= 0 or not hasattr(signal, "SIGALRM"):
            return self.mod.check(case) or []

        def _alarm(*_a):
            raise CaseTimeout()
        prev = signal.signal(signal.SIGALRM, _alarm)
        signal.setitimer(signal.ITIMER_REAL, limit)
        try:
            return self.mod.check(case) or []
        except CaseTimeout:
            return ["case-timeout-inconclusive"]
        finally:
            signal.setitimer(signal.ITIMER_REAL, 0)
            signal.signal(signal.SIGALRM, prev)

    def run_case(self, case):
        """returns None or Violation (unlisted)."""
        self.evaluations += 1
        try:
            try:
                labels = self._check_limited(case)
            except (Violation, HarnessError):
                raise
            except Exception as exc:
                v = sut_exception_as_violation(exc, case)
                if v is None:
                    raise       # raised by the harness' own code: a harness error (exit 2), never a violation
                raise v from exc
        except Violation as v:
            e = match_finding(self.findings, v)
            if e is not None:
                self.known[e["id"]] += 1
                self.known_examples.setdefault(e["id"], {"case": case, "what": v.what})
                self.labels["known-finding:" + e["id"]] += 1
                return None
            self.last_violation = (case, v)
            return v
        for lab in set(labels):
            if isinstance(lab, str) and lab.startswith("known-finding:"):
                fid = lab.split(":", 1)[1]
                self.known[fid] += 1
                self.known_examples.setdefault(fid, {"case": case, "what": "listed finding observed; remaining assertions of the case continued"})
            if isinstance(lab, str) and lab.startswith("n:"):
                _, name, num = lab.split(":", 2)   # numeric label: summed, e.g. "n:pairs:3905"
                self.labels["n:" + name] += int(num)
            else:
                self.labels[lab] += 1
        if self.mod.nontrivial(labels):
            if isinstance(case, dict) and case.get("enum"):
                self.enum_nontrivial += 1
                if len(self.samples) < 2:
                    self.samples.append({"case": case, "labels": sorted(set(labels))})
                return None
            h = case_hash(case)
            if h not in self.nontrivial:
                self.nontrivial.add(h)
                if len(self.samples) < MAX_SAMPLES:
                    self.samples.append({"case": case, "labels": sorted(set(labels))})
        return None

    def result(self):
        viol = None
        if self.last_violation is not None:
            case, v = self.last_violation
            viol = json.loads(json.dumps({"case": case, "kind": v.kind, "what": v.what, "detail": v.detail}, default=str))
        return {
            "evaluations": self.evaluations,
            "labels": dict(self.labels),
            "nontrivial": list(self.nontrivial),
            "enum_nontrivial": self.enum_nontrivial,
            "samples": self.samples,
            "known": dict(self.known),
            "known_examples": self.known_examples,
            "violation": viol,
            "harness_error": self.harness_error,
        }


def _shard_main(args):
    (modname, tier, seed, shard, nshards, n_examples, do_enum, shrink) = args
    os.environ.setdefault("PYTHONHASHSEED", "0")
    sys.path.insert(0, VERIF)
    try:
        mod = importlib.import_module(modname)
        st = ShardState(mod, load_findings(mod.PID))
        t0 = time.time()
        # ---- exhaustive / enumerated part
        if do_enum and hasattr(mod, "enumerate_cases"):
            for case in mod.enumerate_cases(tier, shard, nshards):
                v = st.run_case(case)
                if v is not None:
                    break
        # ---- generated part
        if st.last_violation is None and n_examples > 0 and hasattr(mod, "strategy"):
            import hypothesis
            from hypothesis import HealthCheck, Phase, given, settings

            phases = [Phase.generate, Phase.target]
            if shrink:
                phases.append(Phase.shrink)

            @hypothesis.seed(seed * 1000 + shard)
            @settings(
                max_examples=n_examples,
                database=None,
                deadline=None,
                derandomize=False,
                report_multiple_bugs=False,
                phases=phases,
                suppress_health_check=[HealthCheck.too_slow, HealthCheck.data_too_large,
                                       HealthCheck.large_base_example],
                print_blob=False,
            )
            @given(mod.strategy(tier))
            def prop(case):
                v = st.run_case(case)
                if v is not None:
                    raise v

            try:
                prop()
            except Violation:
                pass  # st.last_violation holds the minimal (last replayed) failing case
            except BaseException as e:
                # a failure that does not reproduce when Hypothesis replays the case in the same process (history-dependent
                # behaviour is exactly that): the recorded violation stands, with the case as first observed
                import hypothesis.errors as HE
                if isinstance(e, (HE.Flaky, HE.FlakyFailure)) and st.last_violation is not None:
                    pass
                else:
                    raise
        r = st.result()
        r["wall_s"] = time.time() - t0
        return r
    except BaseException as e:  # harness error: reported, never a VIOLATION
        return {"harness_error": "".join(traceback.format_exception(type(e), e, e.__traceback__)),
                "evaluations": 0, "labels": {}, "nontrivial": [], "enum_nontrivial": 0, "samples": [], "known": {},
                "known_examples": {}, "violation": None, "wall_s": 0.0}


# ------------------------------------------------------------------ parent
def replay_file(mod, path):
    with open(path) as f:
        data = json.load(f)
    case = data["case"] if isinstance(data, dict) and "case" in data else data
    return case


def write_replay(pid, viol):
    d = os.path.join(os.environ.get("VF_REPLAY_DIR") or os.path.join(VERIF, "replays"), pid)
    os.makedirs(d, exist_ok=True)
    path = os.path.join(d, case_hash(viol["case"])[:16] + ".json")
    with open(path, "w") as f:
        json.dump({"property": pid, "kind": viol["kind"], "what": viol["what"],
                   "detail": viol["detail"], "case": viol["case"]}, f, indent=1, default=str)
    return path


def write_evidence(pid, tier, seed, level, coverage, assumptions, wall, violations):
    d = os.environ.get("VF_EVIDENCE_DIR") or os.path.join(VERIF, "evidence")   # sensitivity experiments write elsewhere
    os.makedirs(d, exist_ok=True)
    ev = {
        "property_id": pid,
        "tier": tier,
        "seed": seed,
        "level": level,
        "coverage": coverage,
        "assumptions": assumptions,
        "wall_s": round(wall, 2),
        "violations": violations,
    }
    tmp = os.path.join(d, pid + ".json.tmp")
    with open(tmp, "w") as f:
        json.dump(ev, f, indent=1, default=str)
    os.replace(tmp, os.path.join(d, pid + ".json"))


def run_property(modname, tier, seed, replay=None):
    sys.path.insert(0, VERIF)
    mod = importlib.import_module(modname)
    pid = mod.PID
    findings = load_findings(pid)
    t0 = time.time()

    # fresh-process baselines (C17, C20) are recomputed from the CURRENT tree at the start of every run, replay runs included: a file left
    # under /verif/.scratch by an earlier run (of a different tree) must never serve as the oracle
    if hasattr(mod, "prepare"):
        try:
            mod.prepare(tier, seed)
        except Exception as e:
            if not replay:
                write_evidence(pid, tier, seed, getattr(mod, "LEVEL", "exploration"), {"evaluations": 0, "distinct_nontrivial": 0, "rule": mod.RULE,
                               "samples": []}, [], time.time() - t0, 0)
            print(f"[{pid}] HARNESS ERROR in prepare (not a violation):\n" + "".join(traceback.format_exception(type(e), e, e.__traceback__)),
                  file=sys.stderr)
            return 2

    if replay:
        case = replay_file(mod, replay)
        try:
            try:
                labels = mod.check(case)
            except (Violation, HarnessError):
                raise
            except Exception as exc:
                v2 = sut_exception_as_violation(exc, case)
                if v2 is None:
                    raise
                raise v2 from exc
        except Violation as v:
            e = match_finding(findings, v)
            if e is not None:
                print(f"KNOWN-FINDING: property={pid} {e['what']}")
                return 0
            print(f"replay: {v.kind}: {v.what}")
            print(f"VIOLATION property={pid} replay={replay}")
            return 1
        print(f"replay: property held on this case; labels={sorted(set(labels or []))}")
        return 0

    merged = ShardState(mod, findings)
    violation = None
    harness_errors = []
    regress_n = 0

    # ---- regression tier: committed minimal reproductions, replayed first (bypasses Hypothesis)
    rdir = os.path.join(VERIF, "regress", pid)
    if os.path.isdir(rdir) and not os.environ.get("VF_NOREGRESS"):
        for fn in sorted(os.listdir(rdir)):
            if not fn.endswith(".json"):
                continue
            case = replay_file(mod, os.path.join(rdir, fn))
            regress_n += 1
            v = merged.run_case(case)
            if v is not None:
                violation = {"case": case, "kind": v.kind, "what": v.what, "detail": v.detail,
                             "source": "regress/" + fn}
                break

    nshards = int(os.environ.get("VF_SHARDS", getattr(mod, "SHARDS", 16)))
    budget = int(os.environ.get("VF_BUDGET", mod.BUDGET[tier]))
    per = (budget + nshards - 1) // nshards if budget else 0
    shrink = os.environ.get("VF_NOSHRINK", "") == ""
    results = []
    if violation is None:
        jobs = [(modname, tier, seed, i, nshards, per, True, shrink) for i in range(nshards)]
        if nshards == 1:
            results = [_shard_main(jobs[0])]
        else:
            ctx = mp.get_context("spawn")
            with ctx.Pool(min(nshards, os.cpu_count() or 1), maxtasksperchild=1) as pool:
                results = pool.map(_shard_main, jobs, chunksize=1)

    total_eval = merged.evaluations
    labels = Counter(merged.labels)
    nontriv = set(merged.nontrivial)
    enum_nt = merged.enum_nontrivial
    samples = list(merged.samples)
    known = Counter(merged.known)
    known_examples = dict(merged.known_examples)
    for r in results:
        if r.get("harness_error"):
            harness_errors.append(r["harness_error"])
        total_eval += r["evaluations"]
        labels.update(r["labels"])
        nontriv.update(r["nontrivial"])
        enum_nt += r.get("enum_nontrivial", 0)
        for s in r["samples"][:3]:
            if len(samples) < MAX_SAMPLES:
                samples.append(s)
        known.update(r["known"])
        for k, v in r["known_examples"].items():
            known_examples.setdefault(k, v)
        if r["violation"] is not None:
            if violation is None or len(canon(r["violation"]["case"])) < len(canon(violation["case"])):
                violation = r["violation"]

    extra_cov = {}
    extra_eval = 0
    if violation is None and not harness_errors and hasattr(mod, "extra_phase"):
        try:
            ex = mod.extra_phase(tier, seed)
        except Violation as v:
            ex = None
            violation = {"case": v.detail.get("case") if isinstance(v.detail, dict) else None,
                         "kind": v.kind, "what": v.what, "detail": v.detail}
            e = match_finding(findings, v)
            if e is not None:
                known[e["id"]] += 1
                violation = None
        except Exception as e:
            ex = None
            harness_errors.append("".join(traceback.format_exception(type(e), e, e.__traceback__)))
        if ex:
            extra_eval = ex.get("evaluations", 0)
            total_eval += extra_eval
            nontriv.update(ex.get("nontrivial", []))
            labels.update(ex.get("labels", {}))
            for s in ex.get("samples", []):
                if len(samples) < MAX_SAMPLES + 2:
                    samples.append(s)
            extra_cov = ex.get("coverage", {})

    # ---- coverage-guided fuzz phase (atheris/libFuzzer) around the same oracle, for modules that provide fuzz_decode
    fuzz_cov = None
    fuzz_runs = getattr(mod, "FUZZ_RUNS", {"quick": 0, "thorough": 15000}).get(tier, 0) if hasattr(mod, "fuzz_decode") else 0
    if os.environ.get("VF_FUZZ_RUNS"):
        fuzz_runs = int(os.environ["VF_FUZZ_RUNS"]) if hasattr(mod, "fuzz_decode") else 0
    if violation is None and not harness_errors and fuzz_runs > 0:
        try:
            fz = run_fuzz(mod, tier, seed, fuzz_runs)
        except Exception as e:
            fz = None
            harness_errors.append("".join(traceback.format_exception(type(e), e, e.__traceback__)))
        if fz is not None:
            fuzz_cov = fz["coverage"]
            nontriv.update(fz["nontrivial"])
            for k, v in fz["labels"].items():
                labels["fuzz:" + k] += v
            for k, v in fz["known"].items():
                known[k] += v
            for smp in fz["samples"]:
                if len(samples) < MAX_SAMPLES + 3:
                    samples.append(smp)
            if fz["violation"] is not None:
                violation = fz["violation"]

    wall = time.time() - t0
    # ---- vacuity guard
    floors = getattr(mod, "FLOORS", {})
    floor_fail = []
    gen_eval = max(1, total_eval - extra_eval)     # floors are fractions of the generated / enumerated cases, not of an extra phase's runs
    if violation is None and not harness_errors:
        for lab, frac in floors.items():
            if labels.get(lab, 0) / gen_eval < frac:
                floor_fail.append(f"label {lab!r}: {labels.get(lab, 0)}/{gen_eval} < {frac}")

    coverage = {
        "evaluations": total_eval,
        "distinct_nontrivial": len(nontriv) + enum_nt,
        "distinct_nontrivial_enumerated": enum_nt,
        "distinct_nontrivial_generated": len(nontriv),
        "rule": mod.RULE,
        "samples": samples if samples else [{"note": "no non-trivial sample collected"}],
        "labels": dict(sorted(labels.items())),
        "regression_cases_replayed": regress_n,
        "shards": nshards,
        "generated_budget": budget,
        "known_findings_hit": dict(known),
        "inconclusive_cases_time_limit": labels.get("case-timeout-inconclusive", 0),
        "exhaustive": bool(getattr(mod, "ENUM_EXHAUSTIVE", False)) and violation is None,
    }
    coverage.update(extra_cov)
    if fuzz_cov is not None:
        coverage["fuzz"] = fuzz_cov
        coverage["evaluations"] += fuzz_cov.get("evaluations", 0)
        total_eval += fuzz_cov.get("evaluations", 0)
    if getattr(mod, "EXHAUSTIVE_NOTE", None):
        coverage["exhaustive_scope"] = mod.EXHAUSTIVE_NOTE
    write_evidence(pid, tier, seed, getattr(mod, "LEVEL", "exploration"), coverage,
                   list(getattr(mod, "ASSUMPTIONS", [])), wall, 1 if violation else 0)

    for e in findings:
        print(f"KNOWN-FINDING: property={pid} {e['what']} (id={e['id']}, observed {known.get(e['id'], 0)}x in this run)")
    print(f"[{pid}] tier={tier} seed={seed} evaluations={total_eval} distinct_nontrivial={len(nontriv) + enum_nt} "
          f"wall={wall:.1f}s")
    top = ", ".join(f"{k}={v}" for k, v in sorted(labels.items(), key=lambda kv: -kv[1])[:14])
    print(f"[{pid}] labels: {top}")
    if labels.get("case-timeout-inconclusive"):
        print(f"[{pid}] INCONCLUSIVE: {labels['case-timeout-inconclusive']} case(s) did not finish within the per-case time limit "
              f"(counted neither as violations nor as passes)")

    if harness_errors:
        print(f"[{pid}] HARNESS ERROR (not a violation):\n" + harness_errors[0], file=sys.stderr)
        return 2
    if violation is not None:
        path = write_replay(pid, violation)
        print(f"[{pid}] {violation['kind']}: {violation['what']}")
        print(f"VIOLATION property={pid} replay={os.path.relpath(path, VERIF)}")
        return 1
    if floor_fail:
        print(f"[{pid}] generator degenerate (harness error, not a violation): " + "; ".join(floor_fail),
              file=sys.stderr)
        return 2
    return 0
