import itertools, re
from annet.annlib.rbparser.syntax import compile_row_regexp
from annet.rulebook.patching import _make_reverse
TOK=["a","b","*","*/[ab]+/","*/(a|c)/"]
WORDS=["a","b","c","ab"]
def ref(toks, tilde, row):
    w=row.split(" "); key=[]; i=0
    for t in toks:
        if i>=len(w): return None
        if t=="*": key.append(w[i])
        elif t.startswith("*/"):
            if not re.fullmatch(t[2:-1], w[i]): return None
            key.append(w[i])
        elif t!=w[i]: return None
        i+=1
    if tilde:
        if i>=len(w): return None
        key.append(" ".join(w[i:]))
    return tuple(key)
n=0;bad=0
for L in range(1,4):
    for toks in itertools.product(TOK,repeat=L):
        for tilde in (False,True):
            pat=" ".join(toks)+(" ~" if tilde else "")
            rx=compile_row_regexp(pat)
            for R in range(1,5):
                for ws in itertools.product(WORDS,repeat=R):
                    row=" ".join(ws); n+=1
                    m=rx.match(row)
                    got=tuple(m.groups()) if m else None
                    exp=ref(toks,tilde,row)
                    if got!=exp:
                        bad+=1
                        if bad<8: print(repr(pat),repr(row),got,exp,rx.pattern)
print(n,bad)
print(_make_reverse("a * b ~","undo"), _make_reverse("undo a *","undo"), _make_reverse("a */[ab]+/ c","no"), _make_reverse("a ~/x|y/","no"))
