import random, json
from collections import OrderedDict as odict
import sim
from sim import ref_match, WORDS
from annet.annlib.rbparser.acl import compile_acl_text
from annet.annlib.patching import apply_acl, AclError
HEADS=["alpha","beta","gamma","delta","interface","eps"]
class A:
    def __init__(s,toks,children,glob=False,cd=None): s.toks=toks; s.children=children; s.glob=glob; s.cd=cd
    def text(s,ind=0):
        t=" "*ind+" ".join(s.toks)
        if s.glob: t+=" %global"
        if s.cd is not None: t+=" %%cant_delete=%d"%s.cd
        out=[t]
        for c in s.children: out+=c.text(ind+4)
        return out
def gen_acl(rnd,d=0):
    rules=[]
    for h in rnd.sample(HEADS,rnd.randint(1,4)):
        toks=[h]+[rnd.choice(["*","lx"]) for _ in range(rnd.randint(0,2))]
        if rnd.random()<0.2: toks.append("~")
        ch=[]
        x=rnd.random()
        if d<2 and x<0.35: ch=gen_acl(rnd,d+1)
        elif d<2 and x<0.5: ch=[A(["~"],[],glob=True)]
        rules.append(A(toks,ch,cd=rnd.choice([None,None,0,1])))
    if d>0 and rnd.random()<0.15: rules.append(A(["glit"],[],glob=True))
    return rules
def covered(row,locs,globs):
    m=[r for r in locs if ref_match(r.toks,row) is not None]
    g=[r for r in globs if ref_match(r.toks,row) is not None]
    return m,g
def ref_filter(tree,locs,globs):
    out=odict()
    for row,ch in tree.items():
        m,g=covered(row,locs,globs)
        if not m and not g: continue
        cl=[]; cg=list(globs)
        for r in m:
            for c in r.children:
                (cg if c.glob else cl).append(c)
        # NOTE if governing rule is a global (only globals matched) -> no local children
        out[row]=ref_filter(ch,cl if m else [],cg)
    return out
def gen_tree(rnd,d=0):
    t=odict()
    for _ in range(rnd.randint(1,5)):
        h=rnd.choice(HEADS+["zzz","glit"])
        row=" ".join([h]+[rnd.choice(["lx","a","b","1"]) for _ in range(rnd.randint(0,3))])
        t[row]=gen_tree(rnd,d+1) if d<3 and rnd.random()<0.5 else odict()
    return t
bad=0
for s in range(3000):
    rnd=random.Random(s); acl=gen_acl(rnd)
    locs=[r for r in acl if not r.glob]; globs=[r for r in acl if r.glob]
    txt="\n".join(sum((r.text() for r in acl),[]))+"\n"
    t=gen_tree(rnd)
    got=apply_acl(t,compile_acl_text(txt,"huawei"))
    exp=ref_filter(t,locs,globs)
    if json.dumps(got)!=json.dumps(exp):
        bad+=1
        if bad<4: print(s); print(txt); print(json.dumps(t)); print("got",json.dumps(got)); print("exp",json.dumps(exp))
print("bad",bad)
