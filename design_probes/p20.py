import sys, json, warnings, random, copy
warnings.filterwarnings("ignore")
sys.path.insert(0,"/repo")
from annet.hardware import hardware_connector, AnnetHardwareProvider
from annet.rulebook import rulebook_provider_connector, DefaultRulebookProvider
hardware_connector.set(AnnetHardwareProvider); rulebook_provider_connector.set(DefaultRulebookProvider)
from tests import make_hw_stub
from tests.annet import patch_data
from annet.api import _diff_and_patch
from annet import patching
from annet.vendors import registry_connector
class D: pass
jobs=[]
for name,sample in patch_data.get_samples(dirname="annet/test_patch"):
    hw=make_hw_stub(sample.get("vendor","huawei").lower())
    try: old,new,_=patch_data.get_configs(hw,sample)
    except Exception: continue
    jobs.append((name,hw,old,new))
def plain(d): return [(op,row,plain(ch)) for op,row,ch,_ in d]
def run(j):
    name,hw,old,new=j
    o0=json.dumps(old); n0=json.dumps(new)
    d=D(); d.hw=hw
    try:
        diff,pt=_diff_and_patch(d,old,new,None,None,False)
        fmt=registry_connector.get().match(hw).make_formatter(indent="")
        r=(plain(diff),list(fmt.cmd_paths(pt).keys()), json.dumps(patching.Orderer.from_hw(hw).order_config(new)))
    except Exception as e: r=("EXC",repr(e)[:100])
    mutated = (json.dumps(old)!=o0) or (json.dumps(new)!=n0)
    return r,mutated
base={}; mut=0
for j in jobs:
    r,m=run(j); base[j[0]]=r; mut+=m
bad=0
for rep in range(5):
    order=list(jobs); random.Random(rep).shuffle(order)
    for j in order:
        r,m=run(j); mut+=m
        if r!=base[j[0]]: bad+=1; print("DIFF",j[0])
print("jobs",len(jobs),"history-dependent",bad,"inputs mutated",mut)
