import random, json
from annet.hardware import hardware_connector, AnnetHardwareProvider
from annet.rulebook import rulebook_provider_connector, DefaultRulebookProvider
hardware_connector.set(AnnetHardwareProvider); rulebook_provider_connector.set(DefaultRulebookProvider)
from annet.annlib.patching import PatchTree
from annet.vendors import registry_connector
from annet.annlib.netdev.views.hardware import HardwareView
from annet import deploy
reg=registry_connector.get()
W=["aa","bb","cc","x1","interface e1","xpl route-filter F","xpl ip-prefix-list P","if a then","elseif b then","else","address-family ipv4","route-policy R","if x then","prefix-set S","rsa peer-public-key k","public-key-code begin"]
def gen(rnd,d=0):
    pt=PatchTree(); used=set()
    for _ in range(rnd.randint(1,4)):
        row=rnd.choice(W)+(" "+rnd.choice("abc") if rnd.random()<0.5 else "")
        if row in used: continue
        used.add(row)
        if d<3 and rnd.random()<0.5:
            sub=gen(rnd,d+1) if rnd.random()<0.85 else PatchTree()
            pt.add_block(row,sub)
        else: pt.add(row,{})
    return pt
models={"huawei":"Huawei CE6870","h3c":"H3C S6850","optixtrans":"Huawei OptiXtrans","cisco":"Cisco Catalyst 2960","nexus":"Cisco Nexus 3132","iosxr":"Cisco ASR 9001","arista":"Arista DCS-7368","aruba":"Aruba AP","b4com":"B4com 4100","pc":"PC"}
for v,m in models.items():
    bad=0; ex=None
    fmt0=reg[v].make_formatter(indent=""); fmt2=reg[v].make_formatter(indent="  ")
    hw=HardwareView(m,"")
    for s in range(400):
        pt=gen(random.Random(s))
        paths=list(fmt0.cmd_paths(pt).keys())
        a=[(len(p)-1,p[-1]) for p in paths]
        txt=fmt2.patch(pt).split("\n")
        b=[((len(l)-len(l.lstrip(" ")))//2, l.strip()) for l in txt]
        ok=(a==b)
        if ok and v!="pc":
            try:
                cl=deploy.apply_deploy_rulebook(hw, fmt0.cmd_paths(pt), do_finalize=True, do_commit=True)
                from annet.annlib.rulebook.common import apply as capply
                bef,aft=capply(hw,True,True)
                body=[(c.level,c.cmd) for c in cl][len(bef):len(cl)-len(aft)]
                ok = body==a
                if not ok: b=body
            except Exception as e:
                ok=False; b=repr(e)
        if not ok:
            bad+=1
            if ex is None: ex=(s,a,b)
    print(v,"bad",bad)
    if ex: print("  seed",ex[0]); print("  paths",ex[1]); print("  other",ex[2])
