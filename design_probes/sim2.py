"""scratch: extend C01 prototype with %ordered, %rewrite, permanent, ignore_changes, chains"""
import random, sys, copy, json
from collections import OrderedDict as odict
import sim
from sim import Rule, ref_match, WORDS, HEADS, classify, Dev
from annet.rulebook.patching import compile_patching_text
from annet.annlib.rbparser.ordering import compile_ordering_text
from annet.rulebook.deploying import compile_deploying_text
from annet.api import _diff_and_patch
from annet.vendors import registry_connector
from annet.annlib.netdev.views.hardware import HardwareView

class R2(Rule):
    def __init__(self, toks, children, glob=False, logic=None, ordered=False, rewrite=False):
        super().__init__(toks, children, glob, logic); self.ordered=ordered; self.rewrite=rewrite
    def text(self, ind=0):
        s=" "*ind+" ".join(self.toks)
        if self.ordered: s+=" %ordered"
        if self.rewrite: s+=" %rewrite %global"
        if self.logic: s+=" %logic="+self.logic
        out=[s]
        for c in self.children: out+=c.text(ind+4)
        return out

def gen_rules(rnd, depth, heads):
    rules=[]
    for h in rnd.sample(heads, rnd.randint(1,min(4,len(heads)))):
        toks=[h]
        for _ in range(rnd.randint(0,2)): toks.append(rnd.choice(["*","lit"+rnd.choice("xy"),"*"]))
        kind=rnd.random()
        sub=[x+str(depth) for x in HEADS[:5]]
        if depth<2 and kind<0.3:
            rules.append(R2(toks, gen_rules(rnd,depth+1,sub), logic=("common.permanent" if rnd.random()<0.3 else None)))
        elif depth<2 and kind<0.4:
            # block with ordered children  e.g. acl / rule ~
            rules.append(R2(toks+["*"] if "*" not in toks else toks, [R2(["rule","~"],[],ordered=True)]))
        elif depth<2 and kind<0.5:
            rules.append(R2(toks+["*"] if "*" not in toks else toks, [R2(["~"],[],rewrite=True)]))
        else:
            if rnd.random()<0.25: toks.append("~")
            logic=None
            x=rnd.random()
            if x<0.15 and "*" in toks: logic="common.undo_redo"
            elif x<0.25: logic="common.permanent"; toks=[t for t in toks if t!="~"]
            elif x<0.35 and "*" in toks: logic="common.ignore_changes"
            rules.append(R2(toks,[],logic=logic))
    return rules

def is_block(r): return bool(r.children)
def inst_row(rnd, rule):
    return sim.inst_row(rnd, rule, not is_block(rule) and rule.logic!="common.permanent")

def gen_tree(rnd, rules):
    t=odict(); seen=set()
    for ri,r in enumerate(rules):
        n = rnd.randint(0,4) if r.ordered or r.rewrite else rnd.randint(0,2)
        for _ in range(n):
            row=inst_row(rnd,r); k=(ri,ref_match(r.toks,row))
            if k in seen: continue
            seen.add(k); t[row]=gen_tree(rnd,r.children) if r.children else odict()
    items=list(t.items()); rnd.shuffle(items); return odict(items)

def mutate(rnd, rules, tree):
    out=odict(); seen=set()
    for row,ch in tree.items():
        ri,key=classify(rules,row); r=rules[ri]; x=rnd.random()
        if x<0.2: continue
        if x<0.5 and not r.children:
            # same key different value where possible
            if r.logic=="common.permanent": row2=row
            elif r.toks[-1]!="~" and rnd.random()<0.6:
                npat=len(r.toks); w=row.split(" ")[:npat]+[rnd.choice(WORDS) for _ in range(rnd.randint(0,2))]
                row2=" ".join(w)
            else: row2=inst_row(rnd,r)
            k2=classify(rules,row2)
            if k2 in seen: continue
            seen.add(k2); out[row2]=odict(); continue
        if (ri,key) in seen: continue
        seen.add((ri,key)); out[row]=mutate(rnd,r.children,ch) if r.children else odict()
    for row,ch in gen_tree(rnd,rules).items():
        k=classify(rules,row)
        if k in seen: continue
        seen.add(k); out[row]=ch
    items=list(out.items())
    if rnd.random()<0.5: rnd.shuffle(items)
    return odict(items)

def HAS_EXC(rules):
    return any(r.logic in ("common.permanent","common.ignore_changes") or HAS_EXC(r.children) for r in rules)
class SimError(Exception): pass
def apply(paths, dev, rules, rev, exitw):
    dev=copy.deepcopy(dev)
    for p in paths:
        cur=dev; ctx=rules
        for blk in p[:-1]:
            if blk not in cur: raise SimError("enter missing block %r in %r"%(blk,p))
            ctx=ctx[classify(ctx,blk)[0]].children; cur=cur[blk]
        cmd=p[-1]
        if exitw and cmd==exitw and len(p)>1: continue
        if cmd.startswith(rev+" "):
            c=classify(ctx,cmd[len(rev)+1:])
            if c is None: raise SimError("undo of unknown %r"%(p,))
            for v in [r for r in cur if classify(ctx,r)==c]: del cur[v]
            continue
        c=classify(ctx,cmd)
        if c is None: raise SimError("unknown cmd %r"%(p,))
        rule=ctx[c[0]]
        same=[r for r in cur if classify(ctx,r)==c]
        if same and same[0]==cmd:
            if rule.children and rule.children[0].rewrite: cur[cmd]=odict()   # rewrite: header resets content
            continue
        keep=odict()
        for r in same: del cur[r]
        cur[cmd]=keep
    return dev

def expect(old,new,rules):
    out=odict()
    for row,ch in new.items():
        ri,key=classify(rules,row); r=rules[ri]
        # ignore_changes: same key in old with different text -> keep old
        oldsame=[o for o in old if classify(rules,o)==(ri,key)]
        if r.logic=="common.ignore_changes" and oldsame and oldsame[0]!=row:
            out[oldsame[0]]=odict(); continue
        out[row]=expect(old.get(row,odict()),ch,r.children) if r.children else odict()
    for row,ch in old.items():
        ri,key=classify(rules,row); r=rules[ri]
        if r.logic=="common.permanent" and not any(classify(rules,n)==(ri,key) for n in new):
            out[row]=expect(ch,odict(),r.children) if r.children else odict()
    return out

def cmp(got,exp,rules):
    if set(got)!=set(exp): return False
    # ordered rules: relative order
    og=[r for r in got if rules[classify(rules,r)[0]].ordered]; oe=[r for r in exp if rules[classify(rules,r)[0]].ordered]
    if og!=oe: return False
    return all(cmp(got[r],exp[r],rules[classify(rules,r)[0]].children) for r in got)

def one(seed, vendor="huawei", model="Huawei", k=3):
    rnd=random.Random(seed); rules=gen_rules(rnd,0,HEADS)
    rul="\n".join(sum((r.text() for r in rules),[]))+"\n"
    hw=HardwareView(model,""); reg=registry_connector.get()[vendor]
    rb={"patching":compile_patching_text(rul,vendor),"ordering":compile_ordering_text("",vendor),"deploying":compile_deploying_text("",vendor)}
    fmt=registry_connector.get().match(hw).make_formatter(indent="")
    dev=gen_tree(rnd,rules); tgt=dev
    for step in range(k):
        tgt=mutate(rnd,rules,tgt)
        diff,pt=_diff_and_patch(Dev(hw),dev,tgt,None,None,False,rb=rb)
        paths=list(fmt.cmd_paths(pt).keys())
        try: got=apply(paths,dev,rules,reg.reverse,reg.exit)
        except SimError as e: return ("simerr",str(e),rul,dev,tgt,paths)
        exp=expect(dev,tgt,rules)
        if not cmp(got,exp,rules): return ("noconv",step,rul,dev,tgt,paths,got,exp)
        d2,pt2=_diff_and_patch(Dev(hw),got,tgt,None,None,False,rb=rb)
        p2=list(fmt.cmd_paths(pt2).keys())
        if p2:
            got2=apply(p2,got,rules,reg.reverse,reg.exit)
            if json.dumps(got2)!=json.dumps(got) or not HAS_EXC(rules): return ("patch2",step,rul,dev,tgt,paths,got,p2)
        dev=got
    return None
if __name__=="__main__":
    n=int(sys.argv[1]); show=int(sys.argv[2]); bad=0; kinds={}
    for s in range(n):
        try: r=one(s)
        except Exception as e:
            r=("exc",repr(e))
        if r:
            bad+=1; kinds[r[0]]=kinds.get(r[0],0)+1
            if bad<=show:
                print("="*20,s,r[0],r[1])
                for x in r[2:]: print(x if isinstance(x,str) else json.dumps(x))
    print("bad",bad,kinds)
