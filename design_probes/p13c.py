import random, json, copy, fnmatch
from annet.annlib import jsontools
KEYS=["a","b","c","ab","x|y","A"]
def esc(k): return k.replace("~","~0").replace("/","~1")
def gen_schema(rnd,d=0):
    # schema: dict key -> ("obj", subschema) | ("arr",) | ("val",)
    sch={}
    for k in rnd.sample(KEYS,rnd.randint(1,4)):
        x=rnd.random()
        if d<2 and x<0.5: sch[k]=("obj",gen_schema(rnd,d+1))
        elif x<0.7: sch[k]=("arr",)
        else: sch[k]=("val",)
    return sch
def gen_doc(rnd,sch):
    doc={}
    for k,t in sch.items():
        if rnd.random()<0.3: continue
        if t[0]=="obj": doc[k]=gen_doc(rnd,t[1])
        elif t[0]=="arr": doc[k]=[rnd.choice(["x","y","z"]) for _ in range(rnd.randint(0,3))]
        else: doc[k]=rnd.choice(["1","2","3"])
    return doc
def gen_acl(rnd,sch,into_arrays=False):
    pats=[]
    for _ in range(rnd.randint(1,3)):
        parts=[]; cur=sch
        while True:
            k=rnd.choice(list(cur))
            parts.append(rnd.choice([esc(k),"*",esc(k)[:1]+"*"]))
            t=cur[k]
            if t[0]=="obj" and rnd.random()<0.6: cur=t[1]; continue
            if t[0]=="arr" and into_arrays and rnd.random()<0.5: parts.append("*")
            break
        pats.append("/"+"/".join(parts))
    return pats
def unesc(p): return p.replace("~1","/").replace("~0","~")
def select(doc,pat):
    """own glob resolution: list of key paths"""
    parts=[unesc(x) for x in pat.split("/")[1:]]
    cur=[((),doc)]
    for part in parts:
        nxt=[]
        for path,d in cur:
            if isinstance(d,dict):
                for k in d:
                    if fnmatch.fnmatchcase(k,part): nxt.append((path+(k,),d[k]))
            elif isinstance(d,list):
                for i in range(len(d)):
                    if fnmatch.fnmatchcase(str(i),part): nxt.append((path+(i,),d[i]))
        cur=nxt
    return [p for p,_ in cur]
def getp(doc,path):
    for k in path:
        try: doc=doc[k]
        except (KeyError,IndexError,TypeError): return ("ABSENT",)
    return doc
def leaves(doc,path=()):
    if isinstance(doc,dict) and doc:
        for k,v in doc.items(): yield from leaves(v,path+(k,))
    else: yield path,doc
def under(path,sels): return any(path[:len(s)]==s for s in sels)
for into in (False,True):
    bad={}; n=0
    for s in range(6000):
        rnd=random.Random(s); sch=gen_schema(rnd)
        old=gen_doc(rnd,sch); f=gen_doc(rnd,sch); acl=gen_acl(rnd,sch,into)
        try: r=jsontools.apply_json_fragment(old,f,acl)
        except Exception as e:
            bad["exc "+type(e).__name__]=bad.get("exc "+type(e).__name__,0)+1; continue
        n+=1
        sel_f=[p for a in acl for p in select(f,a)]; sel_o=[p for a in acl for p in select(old,a)]
        why=None
        for p in sel_f:
            if getp(r,p)!=getp(f,p): why="selected != fragment"
        for p in sel_o:
            if p not in sel_f and not under(p,sel_f) and getp(r,p)!=("ABSENT",) and getp(f,p)==("ABSENT",): why="matched-but-absent not removed"
        for p,v in leaves(old):
            if not under(p,sel_f+sel_o) and getp(r,p)!=v: why="outside changed"
        for p,v in leaves(r):
            if not under(p,sel_f+sel_o) and getp(old,p)!=v and v!={}: why="outside added"
        try:
            if jsontools.apply_json_fragment(r,f,acl)!=r: why=why or "not idempotent"
        except Exception as e: why="exc2"
        if why:
            bad[why]=bad.get(why,0)+1
            if bad[why]==1: print(into,why,json.dumps(old),json.dumps(f),acl,json.dumps(r))
    print("into_arrays",into,"ok runs",n,"bad",bad)
