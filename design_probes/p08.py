import random, json
from collections import OrderedDict as odict
import sim
from sim import Rule, ref_match, classify, HEADS, WORDS, Dev
from annet.rulebook.patching import compile_patching_text
from annet.annlib.rbparser.ordering import compile_ordering_text
from annet.rulebook.deploying import compile_deploying_text
from annet.api import _diff_and_patch
from annet.annlib.netdev.views.hardware import HardwareView
hw=HardwareView("Huawei","")
def rank(cmd, order_rules, rev="undo"):
    """order_rules: list of (toks, order_reverse)"""
    removal=cmd.startswith(rev+" ")
    body=cmd[len(rev)+1:] if removal else cmd
    if removal:
        for i,(toks,orev) in enumerate(order_rules):
            if orev and ref_match(toks,cmd) is not None: return +i   # pinned position overrides the mirrored one
    for i,(toks,orev) in enumerate(order_rules):
        if orev: continue
        else:
            if not removal and ref_match(toks,cmd) is not None: return +i
            if removal and ref_match(toks,body) is not None: return -i
    return 0
bad=0; nontriv=0
for s in range(2000):
    rnd=random.Random(s)
    heads=rnd.sample(HEADS,rnd.randint(3,6))
    rules=[Rule([h,"*"],[]) for h in heads]
    rul="\n".join(sum((r.text() for r in rules),[]))+"\n"
    # ordering: permutation of a subset, some order_reverse entries
    oh=rnd.sample(heads,rnd.randint(2,len(heads)))
    order_rules=[]; lines=[]
    lines.append("zzzfirst")  ; order_rules.append((["zzzfirst"],False))   # occupy index 0 so matched ranks are !=0
    for h in oh:
        order_rules.append(([h],False)); lines.append(h)
    for h in rnd.sample(oh,rnd.randint(0,2)):
        pos=rnd.randint(1,len(order_rules))
        order_rules.insert(pos,(["undo",h],True)); lines.insert(pos,"undo %s %%order_reverse"%h)
    otext="\n".join(lines)+"\n"
    old=sim.gen_tree(rnd,rules); new=sim.gen_tree(rnd,rules)
    rb={"patching":compile_patching_text(rul,"huawei"),"ordering":compile_ordering_text(otext,"huawei"),"deploying":compile_deploying_text("","huawei")}
    d,pt=_diff_and_patch(Dev(hw),old,new,None,None,False,rb=rb)
    cmds=[i.row for i in pt.itms]
    rk=[rank(c,order_rules) for c in cmds]
    if len(set(rk))>=2 and any(r<0 for r in rk): nontriv+=1
    for i in range(len(cmds)):
        for j in range(i+1,len(cmds)):
            if rk[i]>rk[j]:
                bad+=1
                if bad<4: print(s,otext,cmds,rk)
                break
        else: continue
        break
print("bad",bad,"nontrivial",nontriv)
