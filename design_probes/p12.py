import time, sys, logging
from annet.parallel import Parallel
def f(x):
    return x*2
if __name__ == "__main__":
    n=int(sys.argv[1]); par=int(sys.argv[2]); delay=float(sys.argv[3])
    p = Parallel(f).tune(parallel=par, max_tasks=25)
    got=[]
    t=time.time()
    for r in p.irun(list(range(n))):
        got.append((r.device_id, r.result))
        time.sleep(delay)
    print("submitted", n, "delivered", len(got), "missing", sorted(set(range(n))-{g[0] for g in got}), "t=%.1f"%(time.time()-t))
