import json
from annet.annlib import jsontools
cases = [
 ({"a":[1,2,3,4]}, {"a":[4]}),
 ({"a":[1,2,3]}, {"a":[3,2,1]}),
 ({"a":{"x":1},"b":2}, {"b":{"x":1}}),
 ({"a":[0,1,2,3,4,5,6,7,8,9,10,11]}, {"a":[0,1,2,3,4,5,6,7,8,9,10,11,12,13]}),
 ({"a":[1,2]}, {"a":[0,1,5,2]}),
 ({"k":{"a":1}}, {"k":{"a":1,"b":{"c":2}}}),
 ({"x":[{"a":1},{"b":2}]}, {"x":[{"b":2},{"a":1},{"c":3}]}),
]
for old,new in cases:
    p = jsontools.make_patch(old,new)
    try:
        res = json.loads(jsontools.apply_patch(json.dumps(old).encode(), json.dumps(p).encode()))
        print(res==new, old, new, p if res!=new else "")
    except Exception as e:
        print("EXC", type(e).__name__, e, old, new, p)
