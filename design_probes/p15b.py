import random, itertools, json, sys
from typing import Optional, Sequence, Any
sys.path.insert(0,"/repo")
from annet.mesh import MeshExecutor, MeshRulesRegistry, DirectPeer, MeshSession, IndirectPeer, Left, Right, separate_ports, united_ports
from annet.storage import Storage, Interface
from annet.mesh.executor import Device

class FI:
    def __init__(s,name,nf=None,np_=None): s._name=name; s.addrs=[]; s.neighbor_fqdn=nf; s.neighbor_port=np_
    @property
    def name(s): return s._name
    def add_addr(s,a,vrf): s.addrs.append((a,vrf))
class FD:
    def __init__(s,name,ifs): s._n=name; s.interfaces=ifs; s.storage=None
    id=property(lambda s:s._n); fqdn=property(lambda s:s._n); hostname=property(lambda s:s._n)
    hw=None; breed=None
    def __hash__(s): return hash(s._n)
    def is_pc(s): return False
    @property
    def neighbours_fqdns(s):
        out=[]
        for i in s.interfaces:
            if i.neighbor_fqdn and i.neighbor_fqdn not in out: out.append(i.neighbor_fqdn)
        return out
    neighbours_ids=neighbours_fqdns
    def make_lag(s,lag,ports,lag_min_links):
        s.interfaces.append(FI(f"Trunk{lag}")); return s.interfaces[-1]
    def add_svi(s,svi): s.interfaces.append(FI(f"Vlan{svi}")); return s.interfaces[-1]
    def add_subif(s,i,sub): s.interfaces.append(FI(f"{i}.{sub}")); return s.interfaces[-1]
    def find_interface(s,name): return next((i for i in s.interfaces if i.name==name),None)
class FS:
    def __init__(s): s.devices=[]
    def resolve_all_fdnds(s): return [d.fqdn for d in s.devices]
    def make_devices(s,query,**kw): return [d for d in s.devices if d.fqdn in query]
    def search_connections(s,device,neighbor):
        res=[]
        for lp in device.interfaces:
            if lp.neighbor_fqdn==neighbor.fqdn:
                for rp in neighbor.interfaces:
                    if rp.name==lp.neighbor_port: res.append((lp,rp))
        return res

def build(seed):
    rnd=random.Random(seed)
    names=[f"sp{i}.dc" for i in range(1,rnd.randint(2,3)+1)]+[f"tor{i}.dc" for i in range(1,rnd.randint(2,3)+1)]
    devs={n:FD(n,[FI("lo0")]) for n in names}
    links=[]
    for a,b in itertools.combinations(names,2):
        if a[:2]==b[:2]: continue
        for k in range(rnd.randint(0,2)):
            pa=f"e{len(devs[a].interfaces)}"; pb=f"e{len(devs[b].interfaces)}"
            devs[a].interfaces.append(FI(pa,b,pb)); devs[b].interfaces.append(FI(pb,a,pa)); links.append((a,pa,b,pb))
    st=FS(); st.devices=list(devs.values())
    return rnd,names,devs,st,links

def h(*xs): return sum(ord(c) for x in xs for c in str(x))%200+1
def make_registry(rnd, order=None):
    reg=MeshRulesRegistry()
    specs=[]
    # rule 1: spine-tor direct, left=sp
    def h1(l:DirectPeer, r:DirectPeer, s:MeshSession):
        k=h(l.device.fqdn,r.device.fqdn,*sorted(l.ports))
        l.addr=f"10.{k}.0.1/31"; r.addr=f"10.{k}.0.0/31"
        l.asnum=65000+l.match.n; r.asnum=64000+r.match.m
        s.families={"ipv4_unicast"}
        if len(l.ports)>1: l.lag=k; r.lag=k
    def h2(l,r,s):
        k=h(l.device.fqdn,r.device.fqdn,*sorted(l.ports))
        l.addr=f"10.{k}.0.1/31"; r.addr=f"10.{k}.0.0/31"
        s.families={"ipv6_unicast"}; l.mtu=9000
    def h3(l,r,s):  # reversed masks: left=tor
        k=h(r.device.fqdn,l.device.fqdn,*sorted(r.ports))
        r.addr=f"10.{k}.0.1/31"; l.addr=f"10.{k}.0.0/31"
        s.bfd=True
    regs=[("sp{n}.dc","tor{m}.dc",(),h1),("sp{n}.dc","tor{m}.dc",(Left.n==1,),h2),("tor{m}.dc","sp{n}.dc",(Right.n>=1,),h3)]
    if order: regs=[regs[i] for i in order]
    for lm,rm_,flt,fn in regs: reg.direct(lm,rm_,*flt)(fn)
    return reg

bad=0; n=0
for seed in range(300):
    rnd,names,devs,st,links=build(seed)
    res={}
    try:
        for nme in names:
            # fresh devices per execution? executor mutates device interfaces (adds lag); reuse is production-like
            res[nme]=MeshExecutor(make_registry(rnd),st).execute_for(devs[nme])
    except Exception as e:
        print(seed,"EXC",type(e).__name__,str(e)[:200]); bad+=1; continue
    # expectation from the handler table
    for a in names:
        for b in names:
            if a[:2]=="sp" and b[:2]=="to":
                ports=sorted(pa for (x,pa,y,pb) in links if x==a and y==b)
                if not ports: 
                    assert not [p for p in res[a].peers if p.hostname==b]; continue
                k=h(a,b,*ports); n+=1
                pa=[p for p in res[a].peers if p.hostname==b]; pb=[p for p in res[b].peers if p.hostname==a]
                ok = len(pa)==1 and len(pb)==1 and pa[0].addr==f"10.{k}.0.0" and pb[0].addr==f"10.{k}.0.1"
                if ok:
                    ok = pa[0].remote_as==pb[0].options.local_as and pb[0].remote_as==pa[0].options.local_as and pa[0].families==pb[0].families
                    ok = ok and pa[0].options.bfd==pb[0].options.bfd==True
                    exp_if_a = f"Trunk{k}" if len(ports)>1 else ports[0]
                    ok = ok and pa[0].interface==exp_if_a
                if not ok:
                    bad+=1; print(seed,"BAD",a,b,ports,[(p.addr,p.interface,p.remote_as,p.options.local_as,p.families) for p in pa],[(p.addr,p.interface,p.remote_as,p.options.local_as,p.families) for p in pb])
print("sessions",n,"bad",bad)
