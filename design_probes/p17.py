import random, json
from collections import OrderedDict as odict
from unittest import mock
from annet import implicit
from annet.annlib.lib import merge_dicts
from annet.annlib.netdev.views.hardware import HardwareView
models=["Huawei CE6870","Huawei NE40E","Huawei S6720","Arista DCS-7368","Cisco Nexus 3432","Cisco Nexus 9516","Cisco Nexus 3132","Cisco Catalyst 2960","Cisco Catalyst 4948","Cisco ASR 9001", "Cisco Nexus 9364"]
def rows_from(tree, acc, path=()):
    for k,a in tree.items():
        acc.append((path,a["row"],a["type"]))
        rows_from(a["children"],acc,path+(a["row"],))
def inst(row,rnd):
    import re
    # instantiate pattern: replace */regex/ and * ~ with sample words
    row=re.sub(r"\*/[^/]*(?:\\/[^/]*)*/", lambda m: rnd.choice(["Ethernet1/1","Loopback0","port-channel10","GigabitEthernet0/1","Ethernet1/1/2"]), row)
    row=row.replace("*",rnd.choice(["0","1","Vlan10","10.0.0.1"])).replace("~","0 4")
    row=row.replace("X?","X").replace("[0-9]","0")
    return row
for m in models:
    dev=mock.Mock(); dev.hw=HardwareView(m,""); dev.tags=["spine1"]
    raw=implicit._implicit_tree(dev); rules=implicit.compile_tree(raw)
    acc=[]; rows_from(raw,acc)
    bad=0
    for s in range(300):
        rnd=random.Random(s)
        t=odict()
        for path,row,typ in acc:
            if rnd.random()<0.5:
                cur=t
                ok=True
                for p in path:
                    pi=inst(p,random.Random(s*7+len(p)))
                    cur=cur.setdefault(pi,odict())
                r=inst(row,rnd)
                if rnd.random()<0.3: r=r+" x"
                cur.setdefault(r,odict())
        imp=implicit.config(t,rules)
        mm=merge_dicts(t,imp)
        imp2=implicit.config(mm,rules)
        m2=merge_dicts(mm,imp2)
        if json.dumps(m2,sort_keys=True)!=json.dumps(mm,sort_keys=True): bad+=1; ex=(t,mm,m2)
    print(m, len(acc), "nonidempotent", bad)
    if bad: print(json.dumps(ex[0])); print(json.dumps(ex[1])); print(json.dumps(ex[2]))
