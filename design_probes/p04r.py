import random, json
from collections import OrderedDict as odict
from annet.vendors import registry_connector
from annet.annlib.tabparser import parse_to_tree
reg = registry_connector.get()
fmt=reg["routeros"].make_formatter()
S=["ip","address","interface","bridge","port","system","user","snmp"]
L=["add a=1","add b=2 c=3","set x=y","add name=q"]
def gen(rnd,d=0):
    t=odict()
    for s in rnd.sample(S, rnd.randint(1,3)):
        if d<2 and rnd.random()<0.5:
            t[s]=gen(rnd,d+1)
            # mixed: section has both leaf rows and subsections?
            if rnd.random()<MIX:
                for l in rnd.sample(L, rnd.randint(1,2)): t[s][l]=odict()
        else:
            t[s]=odict((l,odict()) for l in rnd.sample(L, rnd.randint(1,3)))
    return t
for MIX in (0.0, 0.5):
    bad=0; ex=None
    for s in range(1000):
        rnd=random.Random(s); t=gen(rnd)
        txt=fmt.join(t); back=parse_to_tree(txt, fmt.split)
        ok=json.dumps(back)==json.dumps(t)
        if ok: ok = fmt.join(back)==txt
        if not ok:
            bad+=1
            if ex is None: ex=(json.dumps(t),txt,json.dumps(back))
    print("MIX",MIX,"bad",bad)
    if ex: print(ex[0]); print(ex[1]); print(ex[2])
