from annet.hardware import hardware_connector, AnnetHardwareProvider
from annet.rulebook import rulebook_provider_connector, DefaultRulebookProvider
hardware_connector.set(AnnetHardwareProvider); rulebook_provider_connector.set(DefaultRulebookProvider)
from annet import gen as G
from annet.generators import PartialGenerator, GeneratorError
from annet.annlib.netdev.views.hardware import HardwareView
from annet import patching
from unittest import mock
import json
from unittest import mock
class Dev:
    def __init__(self): self.hw=HardwareView("Huawei CE6870",""); self.hostname="d1"; self.fqdn="d1.x"; self.id=1; self.tags=[]; self.storage=mock.MagicMock(); self.breed="vrp85"
    def is_pc(self): return False
    def __hash__(self): return 1
    def __eq__(self,o): return self is o
class G1(PartialGenerator):
    def acl_huawei(self,d): return "ntp\nsnmp *\n    host ~\n"
    def run_huawei(self,d):
        yield "ntp server 1"
        with self.block("snmp x"):
            yield "host", "h1"
            yield """
               host h2
               host h3
            """
class G2(PartialGenerator):
    def acl_huawei(self,d): return "ntp server %cant_delete=1\nfoo\n"
    def run_huawei(self,d):
        yield "foo bar"
class G3(PartialGenerator):
    def acl_huawei(self,d): return "ntp\n"
    def run_huawei(self,d):
        yield "bar"
dev=Dev()
STO=mock.MagicMock(); STO.flush_perf.return_value={}
class Args:  # GenOptions surrogate
    no_acl=False; no_acl_exclusive=False; acl_safe=False; profile=False; fail_on_empty_config=False; generators_context=None
    filter_acl=None; filter_ifaces=None; filter_peers=None; filter_policies=None; required_packages_check=False
def ctx(gens):
    dg=G.DeviceGenerators(partial={dev:gens}, ref={dev:[]}, entire={dev:[]}, json_fragment={dev:[]})
    return G.OldNewDeviceContext(config="empty", args=Args(), downloaded_files={}, failed_files={}, running={}, failed_running={}, no_new=False, stdin={"filter_acl":None,"config":None}, add_annotations=False, add_implicit=False, do_files_download=False, gens=dg, fetched_packages={}, failed_packages={}, device_count=1, do_print_perf=False)
filt=mock.Mock()
for gens in ([G1(STO)],[G1(STO),G2(STO)],[G1(STO),G3(STO)]):
    try:
        # run_partial_initial is called if old empty -> patch it
        with mock.patch("annet.generators.run_partial_initial") as rpi:
            rpi.return_value=mock.Mock(config_tree=lambda: {}, perf_mesures=lambda: {})
            r=G._old_new_per_device(ctx(gens),dev,filt)
        print("OK", json.dumps(r.new), r.err)
    except Exception as e:
        print("EXC", type(e).__name__, e, "| cause:", type(e.__cause__).__name__, e.__cause__)
