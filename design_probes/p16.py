import sys, json, warnings
warnings.filterwarnings("ignore")
sys.path.insert(0,"/repo")
from annet.hardware import hardware_connector, AnnetHardwareProvider
from annet.rulebook import rulebook_provider_connector, DefaultRulebookProvider
hardware_connector.set(AnnetHardwareProvider); rulebook_provider_connector.set(DefaultRulebookProvider)
from tests import make_hw_stub
from tests.annet import patch_data
from annet.api import _diff_and_patch, _read_old_new_diff_patch
from annet.vendors import registry_connector
class D: pass
n=0; diffs=[]; errs=[]
for name,sample in patch_data.get_samples(dirname="annet/test_patch"):
    vendor=sample.get("vendor","huawei").lower()
    hw=make_hw_stub(vendor)
    try:
        old,new,_=patch_data.get_configs(hw,sample)
    except Exception as e:
        errs.append((name,repr(e)[:80])); continue
    fmt=registry_connector.get().match(hw).make_formatter(indent="")
    d=D(); d.hw=hw
    try:
        _,pt=_diff_and_patch(d,old,new,None,None,False)
        _,_,_,pt2=_read_old_new_diff_patch(old,new,hw,False)
    except Exception as e:
        errs.append((name,repr(e)[:120])); continue
    a=list(fmt.cmd_paths(pt).keys()); b=list(fmt.cmd_paths(pt2).keys()); n+=1
    if a!=b: diffs.append((name,[x for x in b if x not in a][:3],[x for x in a if x not in b][:3]))
print("pairs",n,"differ",len(diffs),"errors",len(errs))
for x in diffs[:12]: print(x)
for x in errs[:5]: print("ERR",x)
