"""scratch feasibility probe: run real Parallel.irun + real pool_worker under a controlled scheduler"""
import threading, queue as pyqueue, sys, random, types, time as realtime
import annet.parallel as P

class Sched:
    """one party runs at a time; parties park at yield points; chooser picks next runnable"""
    def __init__(self, choose):
        self.choose=choose; self.lock=threading.Condition(); self.current="parent"; self.parties={}  # name -> state
        self.blocked={}  # name -> predicate to become runnable
        self.trace=[]
    def register(self,name): 
        with self.lock: self.parties[name]="ready"
    def finish(self,name):
        with self.lock:
            self.parties.pop(name,None); self.blocked.pop(name,None)
            self._handoff(name)
    def yield_point(self,name,pred=None):
        """park `name` until chosen again and pred() true"""
        with self.lock:
            if pred: self.blocked[name]=pred
            self._handoff(name)
            while self.current!=name: self.lock.wait()
            self.blocked.pop(name,None)
    def _handoff(self,frm):
        runnable=[n for n in sorted(self.parties) if n not in self.blocked or self.blocked[n]()]
        if not runnable:
            self.current=None; self.lock.notify_all(); return
        nxt=self.choose(runnable); self.trace.append(nxt); self.current=nxt; self.lock.notify_all()

SCH=None
def me(): return threading.current_thread().name if threading.current_thread().name!="MainThread" else "parent"

class FQueue:
    def __init__(self): self.items=[]
    def put(self,x):
        self.items.append(x); SCH.yield_point(me())
    def get(self,block=True,timeout=None):
        n=me()
        if timeout is None:
            SCH.yield_point(n, lambda: bool(self.items))
            return self.items.pop(0)
        # timed get: scheduler may resume us with empty queue => timeout
        SCH.yield_point(n)
        if self.items: return self.items.pop(0)
        raise pyqueue.Empty
    def qsize(self): return len(self.items)
    def close(self): pass
    def empty(self): return not self.items

class FProcess:
    def __init__(self,name=None,target=None,args=()):
        self.name=name; self.target=target; self.args=args; self.exitcode=None; self.pid=1; self.th=None
    def start(self):
        SCH.register(self.name)
        def run():
            SCH.yield_point(self.name)
            code=0
            try: self.target(*self.args)
            except SystemExit as e: code=e.code if isinstance(e.code,int) else 1
            except BaseException as e: code=1; print("worker exc",repr(e))
            self.exitcode=code
            SCH.finish(self.name)
        self.th=threading.Thread(target=run,name=self.name,daemon=True); self.th.start()
    def join(self): pass
    def terminate(self): pass
class FMP:
    Queue=FQueue; Process=FProcess
    @staticmethod
    def cpu_count(): return 4
    @staticmethod
    def current_process(): return types.SimpleNamespace(name=me())

def run_case(n,par,max_tasks,seed,fail=()):
    global SCH
    rnd=random.Random(seed)
    SCH=Sched(lambda r: rnd.choice(r)); SCH.register("parent")
    P.mp=FMP
    def f(x):
        if x in fail: raise ValueError("boom")
        return x*2
    pool=P.Parallel(f).tune(parallel=par,max_tasks=max_tasks)
    got=[]
    for r in pool.irun(list(range(n))):
        got.append((r.device_id, r.result, r.exc is not None))
        for _ in range(rnd.randint(0,3)): SCH.yield_point("parent")   # slow consumer
    return got

if __name__=="__main__":
    import logging
    lost=0; tot=0; t=realtime.time()
    for seed in range(int(sys.argv[1])):
        rnd=random.Random(seed*7)
        n=rnd.randint(0,8); par=rnd.randint(1,3); mt=rnd.randint(1,4)
        got=run_case(n,par,mt,seed)
        ids=sorted(g[0] for g in got); tot+=1
        if ids!=list(range(n)):
            lost+=1
            if lost<4: print("LOSS seed",seed,"n",n,"par",par,"max_tasks",mt,"delivered",ids)
    print("cases",tot,"with loss/dup",lost,"%.1fs"%(realtime.time()-t))
