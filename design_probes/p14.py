from unittest import mock
from annet.hardware import hardware_connector, AnnetHardwareProvider
from annet.rulebook import rulebook_provider_connector, DefaultRulebookProvider
hardware_connector.set(AnnetHardwareProvider); rulebook_provider_connector.set(DefaultRulebookProvider)
from annet.rpl import RouteMap, R, Route
from annet.rpl_generators import CommunityListGenerator, RoutingPolicyGenerator, CommunityList, CommunityType, CommunityLogic
from annet.generators import _run_partial_generator, GeneratorError
from annet.types import GeneratorPartialRunArgs
from annet.annlib.netdev.views.hardware import HardwareView
class Dev:
    def __init__(s,m,soft): s.hw=HardwareView(m,soft); s.hostname="d"; s.fqdn="d"; s.id=1
rm=RouteMap()
@rm
def pol(device, route: Route):
    with route(R.large_community.has("LC1"), number=10) as rule:
        rule.next_hop.ipv4_addr("10.0.0.1")
        rule.allow()
COMMS=[CommunityList("LC1",["1:2:3"],CommunityType.LARGE)]
STO=mock.MagicMock(); STO.flush_perf.return_value={}
class CG(CommunityListGenerator):
    def get_policies(self,d): return rm.apply(d)
    def get_community_lists(self,d): return COMMS
class PG(RoutingPolicyGenerator):
    def get_policies(self,d): return rm.apply(d)
    def get_community_lists(self,d): return COMMS
    def get_prefix_lists(self,d): return []
    def get_rd_filters(self,d): return []
for m,soft in [("Arista DCS-7368","EOS 4.29"),("Huawei CE6870","VRP V200R001C00SPC700")]:
    for G in (CG,PG):
        try:
            r=_run_partial_generator(G(STO), GeneratorPartialRunArgs(Dev(m,soft), use_acl=True))
            print(m,G.__name__,"OK",repr(r.output))
        except Exception as e:
            c=e.__cause__
            print(m,G.__name__,"EXC",type(e).__name__,"cause",type(c).__name__,c)
