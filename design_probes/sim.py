"""scratch prototype of the C01 device simulator + generator (NOT framework code)"""
import random, sys, copy, json
from collections import OrderedDict as odict
from annet.hardware import hardware_connector, AnnetHardwareProvider
from annet.rulebook import rulebook_provider_connector, DefaultRulebookProvider
hardware_connector.set(AnnetHardwareProvider); rulebook_provider_connector.set(DefaultRulebookProvider)
from annet.rulebook.patching import compile_patching_text
from annet.annlib.rbparser.ordering import compile_ordering_text
from annet.rulebook.deploying import compile_deploying_text
from annet import patching
from annet.api import _diff_and_patch
from annet.vendors import registry_connector
from annet.annlib.netdev.views.hardware import HardwareView

WORDS = ["a","b","c","d","1","2","3"]
HEADS = ["alpha","beta","gamma","delta","eps","zeta","eta","theta"]
class Dev:
    def __init__(self, hw): self.hw=hw

# ---- rule model
class Rule:
    def __init__(self, toks, children, glob=False, logic=None):
        self.toks=toks; self.children=children; self.glob=glob; self.logic=logic
    def text(self, ind=0):
        s = " "*ind + " ".join(self.toks)
        if self.glob: s += " %global"
        if self.logic: s += " %logic="+self.logic
        out=[s]
        for c in self.children: out += c.text(ind+4)
        return out

def gen_rules(rnd, depth, heads):
    rules=[]
    hs = rnd.sample(heads, rnd.randint(1, min(4,len(heads))))
    for h in hs:
        toks=[h]
        n = rnd.randint(0,2)
        for _ in range(n):
            toks.append(rnd.choice(["*","lit"+rnd.choice("xy"),"*"]))
        is_block = depth<2 and rnd.random()<0.4
        if rnd.random()<0.2: toks.append("~")
        children = gen_rules(rnd, depth+1, [x+str(depth) for x in HEADS[:5]]) if is_block else []
        logic=None
        if not children and rnd.random()<0.15 and "*" in toks: logic="common.undo_redo"
        rules.append(Rule(toks, children, logic=logic))
    return rules

def ref_match(toks, row):
    """reference matcher: returns key tuple or None"""
    w = row.split(" ")
    key=[]; i=0
    for j,t in enumerate(toks):
        if t=="~":
            assert j==len(toks)-1
            if i>=len(w): return None
            key.append(" ".join(w[i:])); i=len(w); return tuple(key)
        if i>=len(w): return None
        if t=="*": key.append(w[i])
        elif t!=w[i]: return None
        i+=1
    return tuple(key)

def inst_row(rnd, rule, leaf):
    w=[]
    for t in rule.toks:
        if t=="*": w.append(rnd.choice(WORDS))
        elif t=="~": w += [rnd.choice(WORDS) for _ in range(rnd.randint(1,2))]
        else: w.append(t)
    if leaf and rule.toks[-1]!="~":
        w += [rnd.choice(WORDS) for _ in range(rnd.randint(0,2))]
    return " ".join(w)

def gen_tree(rnd, rules):
    t=odict(); seen=set()
    for ri, r in enumerate(rules):
        for _ in range(rnd.randint(0,2)):
            row = inst_row(rnd, r, not r.children)
            k = (ri, ref_match(r.toks,row))
            if k in seen: continue
            seen.add(k)
            t[row] = gen_tree(rnd, r.children) if r.children else odict()
    items=list(t.items()); rnd.shuffle(items)
    return odict(items)

def mutate(rnd, rules, tree):
    """derive new from old: keep/change/drop rows"""
    out=odict(); seen=set()
    for row, ch in tree.items():
        ri, key = classify(rules,row)
        x=rnd.random()
        if x<0.25: continue
        if x<0.5 and not rules[ri].children:
            row2 = inst_row(rnd, rules[ri], True)
            ri2,key2 = classify(rules,row2)
            if (ri2,key2) in seen: continue
            seen.add((ri2,key2)); out[row2]=odict(); continue
        if (ri,key) in seen: continue
        seen.add((ri,key))
        out[row] = mutate(rnd, rules[ri].children, ch) if rules[ri].children else odict()
    extra = gen_tree(rnd, rules)
    for row,ch in extra.items():
        k=classify(rules,row)
        if k in seen: continue
        seen.add(k); out[row]=ch
    items=list(out.items()); rnd.shuffle(items)
    return odict(items)

def classify(rules,row):
    for ri,r in enumerate(rules):
        k=ref_match(r.toks,row)
        if k is not None: return ri,k
    return None

# ---- device sim
class SimError(Exception): pass
def apply(paths, dev, rules, rev, exitw):
    dev=copy.deepcopy(dev)
    for p in paths:
        cur=dev; ctx=rules
        for blk in p[:-1]:
            if blk not in cur: raise SimError("enter missing block %r in %r"%(blk,p))
            c=classify(ctx,blk)
            if c is None: raise SimError("unknown block %r"%(blk,))
            ctx=ctx[c[0]].children; cur=cur[blk]
        cmd=p[-1]
        if exitw and cmd==exitw and len(p)>1: continue
        if cmd.startswith(rev+" "):
            x=cmd[len(rev)+1:]
            c=classify(ctx,x)
            if c is None: raise SimError("undo of unknown %r"%(p,))
            victims=[r for r in cur if classify(ctx,r)==c]
            for v in victims: del cur[v]
            continue
        c=classify(ctx,cmd)
        if c is None: raise SimError("unknown cmd %r"%(p,))
        same=[r for r in cur if classify(ctx,r)==c]
        keep=odict()
        for r in same:
            if r==cmd: keep=cur[r]
        if same and same[0]==cmd:
            continue   # re-enter existing block / idempotent
        for r in same: del cur[r]
        cur[cmd]=keep
    return dev

def unordered(t): return {k:unordered(v) for k,v in t.items()}

def one(seed, vendor, model):
    rnd=random.Random(seed)
    rules=gen_rules(rnd,0,HEADS)
    rul="\n".join(sum((r.text() for r in rules),[]))+"\n"
    old=gen_tree(rnd,rules); new=mutate(rnd,rules,old)
    hw=HardwareView(model,"")
    reg=registry_connector.get()[vendor]
    rb={"patching":compile_patching_text(rul,vendor),"ordering":compile_ordering_text("",vendor),"deploying":compile_deploying_text("",vendor)}
    diff,pt=_diff_and_patch(Dev(hw),old,new,None,None,False,rb=rb)
    fmt=registry_connector.get().match(hw).make_formatter(indent="")
    paths=list(fmt.cmd_paths(pt).keys())
    try:
        got=apply(paths,old,rules,reg.reverse,reg.exit)
    except SimError as e:
        return ("simerr",str(e),rul,old,new,paths)
    if unordered(got)!=unordered(new):
        return ("noconv",None,rul,old,new,paths,got)
    d2,pt2=_diff_and_patch(Dev(hw),got,new,None,None,False,rb=rb)
    if d2 or list(fmt.cmd_paths(pt2).keys()):
        return ("nonempty2",None,rul,old,new,paths,got)
    return None

if __name__=="__main__":
    n=int(sys.argv[1]); bad=0; kinds={}
    for s in range(n):
        for vendor,model in [("huawei","Huawei"),("cisco","Cisco Catalyst")]:
            r=one(s,vendor,model)
            if r:
                bad+=1; kinds[r[0]]=kinds.get(r[0],0)+1
                if bad<=int(sys.argv[2]):
                    print("="*30,s,vendor,r[0],r[1]); print(r[2]); print("old",json.dumps(r[3])); print("new",json.dumps(r[4])); print("paths",r[5]); 
                    if len(r)>6: print("got",json.dumps(r[6]))
    print("bad",bad,kinds)
