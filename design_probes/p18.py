import json, re, random, warnings
warnings.filterwarnings("ignore")
from hypothesis import strategies as st, settings, HealthCheck
from annet.hardware import hardware_connector, AnnetHardwareProvider
from annet.rulebook import rulebook_provider_connector, DefaultRulebookProvider, get_rulebook
hardware_connector.set(AnnetHardwareProvider); rulebook_provider_connector.set(DefaultRulebookProvider)
from annet.annlib.netdev.views.hardware import HardwareView
from annet.annlib.netdev.devdb import parse_hw_model
db=json.load(open("/repo/annet/annlib/netdev/devdb/data/devdb.json"))
def example(rx, seed):
    # one sample string that contains a match of rx
    s=st.from_regex(re.compile(rx), fullmatch=False)
    import hypothesis
    @hypothesis.seed(seed)
    @settings(max_examples=1, database=None, deadline=None, suppress_health_check=list(HealthCheck), phases=[hypothesis.Phase.generate])
    @hypothesis.given(s)
    def f(x): out.append(x)
    out=[]; f(); 
    x=out[-1]
    return "".join(c for c in x if 32<=ord(c)<127) 
def synth(seq):
    parts=seq.split("."); chain=[".".join(parts[:i+1]) for i in range(len(parts))]
    # build from root: append sample of each level that is not yet satisfied
    m=""
    for lvl in chain:
        rx=db[lvl]
        if re.search(rx,m): continue
        cand=None
        for seed in range(20):
            ex=example(rx.lstrip("^"),seed) if True else None
            mm=(ex if rx.startswith("^") and not m else m+ex) if not rx.startswith("^") or not m else None
            if mm is None: break
            if all(re.search(db[c],mm) for c in chain[:chain.index(lvl)+1]): cand=mm; break
        if cand is None: return None
        m=cand
    return m
res={"ok":0,"nosynth":[],"own_false":[],"prefix":[],"rbfail":[],"vendor_none":[]}
for seq in db:
    m=synth(seq)
    if m is None: res["nosynth"].append(seq); continue
    true,false=parse_hw_model(m)
    tset=set(true)
    if tuple(seq.split(".")) not in tset: res["own_false"].append((seq,m)); continue
    for t in tset:
        for i in range(1,len(t)):
            if t[:i] in false: res["prefix"].append((seq,m,t)); 
    hw=HardwareView(m,"")
    v=hw.vendor
    if v is None: res["vendor_none"].append((seq,m)); continue
    try: get_rulebook(hw)
    except Exception as e: res["rbfail"].append((seq,m,repr(e)[:200])); continue
    res["ok"]+=1
for k,v in res.items(): print(k, v if isinstance(v,int) else (len(v), v[:6]))
