import random, json, copy
from collections import OrderedDict as odict
import sim
from sim import Rule, ref_match, classify, HEADS, Dev
from annet.rulebook.patching import compile_patching_text
from annet.annlib.rbparser.ordering import compile_ordering_text
from annet.rulebook.deploying import compile_deploying_text
from annet.annlib.rbparser.acl import compile_acl_text
from annet.api import _diff_and_patch
from annet.vendors import registry_connector
from annet.annlib.netdev.views.hardware import HardwareView
hw=HardwareView("Huawei","")
fmt=registry_connector.get().match(hw).make_formatter(indent="")
class A:
    def __init__(s,toks,children,glob=False,cd=None): s.toks=toks; s.children=children; s.glob=glob; s.cd=cd
    def text(s,ind=0,gen="G"):
        t=" "*ind+" ".join(s.toks)
        if s.glob: t+=" %global"
        if s.cd is not None: t+=" %%cant_delete=%d"%s.cd
        out=[t]
        for c in s.children: out+=c.text(ind+4)
        return out
    def cant_delete(s):
        return bool(s.cd) if s.cd is not None else s.toks[0]=="interface"
def acl_from(rnd,rules):
    out=[]
    for r in rules:
        if rnd.random()<0.4: continue
        toks=list(r.toks)
        if rnd.random()<0.2 and len(toks)>1 and toks[-1]!="~": toks=toks[:-1]+["~"] if toks[-1]=="*" else toks
        if r.children:
            ch=[A(["~"],[],glob=True)] if rnd.random()<0.4 else acl_from(rnd,r.children)
        else: ch=[]
        out.append(A(toks,ch,cd=rnd.choice([None,None,0,1])))
    return out
def cover(row,locs,globs):
    m=[r for r in locs if ref_match(r.toks,row) is not None]
    g=[r for r in globs if ref_match(r.toks,row) is not None]
    return m,g
def child_ctx(m,globs):
    cl=[];cg=list(globs)
    for r in m:
        for c in r.children: (cg if c.glob else cl).append(c)
    return (cl if m else []),cg
def check_path(p,locs,globs,rev,exitw):
    for i,row in enumerate(p):
        last=i==len(p)-1
        if last and exitw and row==exitw and i>0: return True
        m,g=cover(row,locs,globs)
        if not m and not g and last and row.startswith(rev+" "):
            m,g=cover(row[len(rev)+1:],locs,globs)
        if not m and not g: return False
        locs,globs=child_ctx(m,globs)
    return True
def walk_old(old,locs,globs,path=()):
    """yield (path,row,covered,cant_delete)"""
    for row,ch in old.items():
        m,g=cover(row,locs,globs)
        cov=bool(m or g)
        gov=(m+g)[0] if cov else None
        yield path+(row,),cov,(gov.cant_delete() if gov else False)
        if cov:
            cl,cg=child_ctx(m,globs)
            yield from walk_old(ch,cl,cg,path+(row,))
        else:
            for sub in walk_all(ch,path+(row,)): yield sub
def walk_all(t,path):
    for row,ch in t.items():
        yield path+(row,),False,False
        yield from walk_all(ch,path+(row,))
def get(t,path):
    for p in path:
        if p not in t: return None
        t=t[p]
    return t
import sim2
bad=0; nt=0
for s in range(2500):
    rnd=random.Random(s)
    rules=sim.gen_rules(rnd,0,HEADS+["interface"])
    for r in rules: 
        if r.logic: r.logic=None
    rul="\n".join(sum((r.text() for r in rules),[]))+"\n"
    acl=acl_from(rnd,rules)
    if not acl: continue
    atxt="\n".join(sum((a.text() for a in acl),[]))+"\n"
    old=sim.gen_tree(rnd,rules); new=sim.mutate(rnd,rules,old)
    rb={"patching":compile_patching_text(rul,"huawei"),"ordering":compile_ordering_text("","huawei"),"deploying":compile_deploying_text("","huawei")}
    aclc=compile_acl_text(atxt,"huawei")
    d,pt=_diff_and_patch(Dev(hw),old,new,aclc,None,False,rb=rb)
    paths=list(fmt.cmd_paths(pt).keys())
    locs=[a for a in acl if not a.glob]; globs=[a for a in acl if a.glob]
    why=None
    for p in paths:
        if not check_path(p,locs,globs,"undo","quit"): why=("uncovered cmd",p); break
    if not why:
        got=sim.apply(paths,old,rules,"undo","quit")
        for path,cov,cd in walk_old(old,locs,globs):
            anc_ok=all(get(got,path[:i]) is not None for i in range(1,len(path)))
            if not cov and anc_ok:
                if json.dumps(get(got,path))!=json.dumps(get(old,path)): why=("foreign row changed",path); break
            if cov and cd and anc_ok and get(got,path) is None:
                # replaced by a row with the same (rule,key)? then it is a change, not a removal
                par=get(got,path[:-1]); ctx=rules
                for b in path[:-1]: ctx=ctx[classify(ctx,b)[0]].children
                k=classify(ctx,path[-1])
                if not any(classify(ctx,r)==k for r in par): why=("cant_delete row removed",path); break
        if paths and any(not c for _,c,_ in walk_old(old,locs,globs)): nt+=1
    if why:
        bad+=1
        if bad<4: print(s,why); print(rul); print(atxt); print(json.dumps(old)); print(json.dumps(new)); print(paths)
print("bad",bad,"nontrivial",nt)
