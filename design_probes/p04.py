import random, json
from collections import OrderedDict as odict
from annet.vendors import registry_connector
from annet.annlib.tabparser import parse_to_tree
reg = registry_connector.get()
W=["aa","bb","cc","x1","y-2","z/3","q.4","10.0.0.1/24","description","ip","vlan"]
def gen(rnd, d=0, maxd=4):
    t=odict()
    for _ in range(rnd.randint(0 if d else 1,3)):
        row=" ".join(rnd.choice(W) for _ in range(rnd.randint(1,3)))
        t[row]= gen(rnd,d+1,maxd) if d<maxd and rnd.random()<0.5 else odict()
    return t
for v in reg:
    fmt=reg[v].make_formatter()
    bad=0; ex=None
    for s in range(500):
        rnd=random.Random(s); t=gen(rnd)
        try:
            txt=fmt.join(t); back=parse_to_tree(txt, fmt.split)
            ok = json.dumps(back)==json.dumps(t)
            if ok:
                txt2=fmt.join(back); ok = txt2==txt
        except Exception as e:
            ok=False; back=repr(e); txt=None
        if not ok:
            bad+=1
            if ex is None: ex=(s,json.dumps(t),txt,json.dumps(back) if not isinstance(back,str) else back)
    print(v, type(fmt).__name__, "bad", bad)
    if ex: print("   ", ex[0], ex[1], "\n---\n", ex[2], "\n---\n", ex[3])
