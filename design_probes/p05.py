import itertools, json
from annet.annlib.tabparser import parse_to_tree, ParserError, CommonFormatter
split=CommonFormatter().split
def ref(text, comments=("!","#")):
    """independent offside parser"""
    tree={}
    sections=[[]]
    for line in text.split("\n"):
        if line=="" : continue   # CommonFormatter.split drops empty strings
        s=line.strip()
        if "#" in comments and line.startswith("#"):
            sections.append([]); continue
        if s=="" or s.startswith(tuple(comments)): continue
        ind=len(line)-len(line.lstrip(" \t"))
        sections[-1].append((ind,s))
    for sec in sections:
        if not sec: continue
        base=sec[0][0]
        stack=[]  # list of (indent, node)
        for ind,s in sec:
            ind-=base
            if ind<0: raise ValueError("neg")
            while stack and stack[-1][0]>ind: stack.pop()
            if stack and stack[-1][0]==ind:
                stack.pop()
            elif stack and stack[-1][0]<ind:
                pass
            # consistency: ind must equal an existing column or be deeper than the top
            parent = stack[-1][1] if stack else tree
            # check inconsistent dedent: after popping, if we popped something and top indent < ind and ind was not a known column -> error
            node=parent.setdefault(s,{})
            stack.append((ind,node))
    return tree
# need inconsistent-dedent detection: redo with explicit column set
def ref2(text, comments=("!","#")):
    tree={}
    sections=[[]]
    for line in text.split("\n"):
        if line=="": continue
        s=line.strip()
        if "#" in comments and line.startswith("#"):
            sections.append([]); continue
        if s=="" or s.startswith(tuple(comments)): continue
        ind=len(line)-len(line.lstrip(" \t"))
        sections[-1].append((ind,s))
    for sec in sections:
        if not sec: continue
        base=sec[0][0]
        stack=[]
        for ind,s in sec:
            ind-=base
            if ind<0: raise ValueError("neg")
            popped=False
            while stack and stack[-1][0]>ind: stack.pop(); popped=True
            if stack and stack[-1][0]==ind: stack.pop()
            elif popped: raise ValueError("inconsistent dedent")
            elif not stack and ind>0: raise AssertionError("cannot happen")
            parent=stack[-1][1] if stack else tree
            node=parent.setdefault(s,{})
            stack.append((ind,node))
    return tree
def plain(t): return {k:plain(v) for k,v in t.items()}
opts=[" "*i+w for i in range(0,5) for w in ("a","b")]+["#","  #x","!c",""]
n=0; bad=0
for L in range(1,5):
    for combo in itertools.product(opts, repeat=L):
        text="\n".join(combo); n+=1
        try: r=("ok",ref2(text))
        except ValueError as e: r=("err",None)
        try: g=("ok",plain(parse_to_tree(text,split)))
        except ParserError: g=("err",None)
        if r!=g:
            bad+=1
            if bad<6: print(repr(text), r, g)
print(n,bad)
