import json, random
from annet.annlib import jsontools
random.seed(1)
def gen(d=0):
    r=random.random()
    if d>2 or r<0.3: return random.choice([0,1,2,"a","b",None,True])
    if r<0.65: return [gen(d+1) for _ in range(random.randint(0,13))]
    return {random.choice("abcde/~"):gen(d+1) for _ in range(random.randint(0,4))}
bad=0
for i in range(20000):
    old={"r":gen()}; new={"r":gen()}
    if random.random()<0.5:
        # mutate old
        new=json.loads(json.dumps(old))
        def mut(x):
            if isinstance(x,list):
                for _ in range(random.randint(0,3)):
                    op=random.random()
                    if op<0.4 and x: x.pop(random.randrange(len(x)))
                    elif op<0.8: x.insert(random.randint(0,len(x)), gen(2))
                    elif len(x)>1:
                        i,j=random.sample(range(len(x)),2); x[i],x[j]=x[j],x[i]
                for y in x: mut(y)
            elif isinstance(x,dict):
                for y in x.values(): mut(y)
        mut(new)
    p = jsontools.make_patch(old,new)
    try:
        res = json.loads(jsontools.apply_patch(json.dumps(old).encode(), json.dumps(p).encode()))
        ok = res==new
    except Exception as e:
        ok=False; res=repr(e)
    if not ok:
        bad+=1
        if bad<=3: print("BAD", json.dumps(old), json.dumps(new), json.dumps(p), res)
print("bad", bad)
