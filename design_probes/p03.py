import random, json
from collections import OrderedDict as odict
import sim, sim2
from sim import classify
from annet.rulebook.patching import compile_patching_text
from annet.annlib.patching import make_diff, strip_unchanged, make_pre
from annet.annlib.types import Op
from annet.annlib.diff import gen_pre_as_diff
from annet.vendors import registry_connector
def proj(d, drop):
    out=odict()
    for op,row,ch,_ in d:
        if op==drop: continue
        out[row]=proj(ch,drop)
    return out
def restrict(t,rules):
    out=odict()
    for row,ch in t.items():
        c=classify(rules,row)
        if c is None: continue
        out[row]=restrict(ch,rules[c[0]].children)
    return out
def unord(t): return {k:unord(v) for k,v in t.items()}
def parse_signed(lines, indent, sb="", se="", be=""):
    signmap={"+":Op.ADDED,"-":Op.REMOVED," ":Op.AFFECTED,">":Op.MOVED}
    root=[]; stack=[(-1,root)]
    for l in lines:
        sign=l[0]; rest=l[2:]
        lvl=0
        while rest.startswith(indent): rest=rest[len(indent):]; lvl+=1
        if be and rest==be: continue
        if sb and rest.endswith(sb): rest=rest[:-len(sb)]
        elif se and rest.endswith(se): rest=rest[:-len(se)]
        while stack[-1][0]>=lvl: stack.pop()
        node=(signmap[sign],rest,[])
        stack[-1][1].append(node); stack.append((lvl,node[2]))
    return root
def plain(d): return [(op,row,plain(ch)) for op,row,ch,_ in d]
bad=0
for s in range(1500):
    rnd=random.Random(s)
    rules=[r for r in sim2.gen_rules(rnd,0,sim.HEADS)]
    # drop exception logics
    def clean(rs):
        for r in rs:
            if r.logic in ("common.permanent","common.ignore_changes"): r.logic=None
            clean(r.children)
    clean(rules)
    rul="\n".join(sum((r.text() for r in rules),[]))+"\n"
    rb={"patching":compile_patching_text(rul,"huawei")}
    old=sim2.gen_tree(rnd,rules); new=sim2.mutate(rnd,rules,old)
    old["unknownrow x"]=odict(); new["unknownrow y"]=odict()
    d=make_diff(old,new,rb,[])
    po=proj(d,Op.ADDED); pn=proj(d,Op.REMOVED)
    ok = unord(po)==unord(restrict(old,rules)) and unord(pn)==unord(restrict(new,rules))
    ok = ok and strip_unchanged(make_diff(old,old,rb,[]))==[]
    sd=strip_unchanged(d)
    for v in ("huawei","juniper","nokia"):
        f=registry_connector.get()[v].make_formatter()
        lines=f.diff(sd)
        back=parse_signed(lines,f._indent,f._block_begin,f._statement_end,f._block_end)
        if back!=plain(sd): ok=False; print("fmt mismatch",v)
    if not ok:
        bad+=1
        if bad<3: print(s,rul,json.dumps(old),json.dumps(new),plain(d))
print("bad",bad)
